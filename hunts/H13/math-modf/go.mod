module modf

go 1.20
