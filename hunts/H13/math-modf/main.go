package main

import "math"

// math.Modf: "Both values have the same sign as f", int + frac == f.
func main() {
	for _, f := range []float64{-0.5, -0.25, -0.9999999999999999, -1e-300, -5e-324, -1e-310, -1.5, 0.5, -3} {
		i, fr := math.Modf(f)
		println("Modf", hx(f), "= int", hx(i), "frac", hx(fr), "int is integral:", i == math.Floor(i))
	}
}
