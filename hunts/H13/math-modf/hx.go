package main

import "math"

// hx renders the bit pattern of f (println formats floats differently under GopherJS)
func hx(f float64) string {
	if f != f {
		return "NaN"
	}
	b := math.Float64bits(f)
	s := "0x"
	for i := 60; i >= 0; i -= 4 {
		s += string("0123456789abcdef"[(b>>uint(i))&15])
	}
	return s
}
