module casmsg

go 1.20
