package main

import "sync/atomic"

func try(name string, f func()) {
	defer func() {
		e := recover()
		if s, ok := e.(string); ok {
			println(name, "panics with string:", s)
		} else if er, ok := e.(error); ok {
			println(name, "panics with error:", er.Error())
		} else {
			println(name, "no panic")
		}
	}()
	f()
}

// Upstream Value.CompareAndSwap checks in this order: new == nil; then old and
// new of different types ("...inconsistently typed values"); only then the
// stored type against new ("...inconsistently typed value into Value").
// The override checks the stored type first and uses another text for the
// old/new check; on a nil *Value it dereferences before the argument checks.
func main() {
	var empty atomic.Value
	try("empty.CAS(1, \"a\")      ", func() { empty.CompareAndSwap(1, "a") })
	var v atomic.Value
	v.Store(1)
	try("int.CAS(1, \"a\")        ", func() { v.CompareAndSwap(1, "a") })
	try("int.CAS(\"a\", 2)        ", func() { v.CompareAndSwap("a", 2) })
	try("int.CAS(\"a\", \"b\")      ", func() { v.CompareAndSwap("a", "b") })
	var np *atomic.Value
	try("(nil *Value).CAS(1,\"a\")", func() { np.CompareAndSwap(1, "a") })
}
