//go:build js

package main

import sync "github.com/gopherjs/gopherjs/nosync"

type Map = sync.Map
