package main

// A sequential history on one Map: three keys are stored, then Range is called
// with a callback that, on its first call only, deletes the two other keys and
// deletes and re-stores the key it was called with.
// sync.Map (and the documentation of nosync.Map.Range itself: "no key will be
// visited more than once") calls the callback once, for one key.
func main() {
	var m Map
	m.Store(0, "a")
	m.Store(1, "b")
	m.Store(2, "c")
	calls := 0
	visits := map[int]int{}
	m.Range(func(k, v any) bool {
		calls++
		visits[k.(int)]++
		if calls == 1 {
			for i := 0; i < 3; i++ {
				if i != k.(int) {
					m.Delete(i)
				}
			}
			m.Delete(k)
			m.Store(k, "again")
		}
		return true
	})
	twice := 0
	for _, n := range visits {
		if n > 1 {
			twice++
		}
	}
	println("calls", calls, "keys visited more than once", twice)
}
