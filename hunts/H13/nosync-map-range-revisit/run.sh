#!/bin/sh
# usage: run.sh /path/to/gopherjs ; exits 1 when the violation is observed
export GOFLAGS=-mod=mod GOPROXY=off GOSUMDB=off GOTOOLCHAIN=local GOPHERJS_SKIP_VERSION_CHECK=1 GO111MODULE=on
cd "$(dirname "$0")" || exit 2
want="calls 1 keys visited more than once 0"
native=$(go run . 2>&1)
[ "$native" = "$want" ] || { echo "native reference unexpected: $native"; exit 2; }
"$1" build -o out.js . || exit 2
got=$(node out.js 2>&1)
echo "sync (go run):      $native"
echo "nosync (gopherjs):  $got"
[ "$got" = "$want" ] || { echo "VIOLATION: nosync.Map.Range visited a key twice"; exit 1; }
