//go:build !js

package main

import "sync"

type Map = sync.Map
