package main

func del(m *Map, k any) (res string) {
	defer func() {
		if recover() != nil {
			res = "panics"
		}
	}()
	m.Delete(k)
	return "returns"
}

// Delete with a key of an unhashable dynamic type panics in sync.Map
// ("runtime error: hash of unhashable type []int"), also when the Map is empty.
// nosync.Map.Delete returns silently as long as nothing has ever been stored,
// but panics once something has been stored (even if the Map is empty again).
func main() {
	var m Map
	println("zero Map:     Delete([]int{1})", del(&m, []int{1}))
	println("zero Map:     Load([]int{1})  ", func() (r string) {
		defer func() {
			if recover() != nil {
				r = "panics"
			}
		}()
		m.Load([]int{1})
		return "returns"
	}())
	m.Store(1, 1)
	m.Delete(1)
	println("emptied Map:  Delete([]int{1})", del(&m, []int{1}))
}
