#!/bin/sh
# usage: run.sh /path/to/gopherjs ; exits 1 when the violation is observed
export GOFLAGS=-mod=mod GOPROXY=off GOSUMDB=off GOTOOLCHAIN=local GOPHERJS_SKIP_VERSION_CHECK=1 GO111MODULE=on
cd "$(dirname "$0")" || exit 2
go run . > native.out 2>&1 || { cat native.out; exit 2; }
"$1" build -o out.js . || exit 2
node out.js > js.out 2>&1
echo "--- sync (go run)"; cat native.out; echo "--- nosync (gopherjs)"; cat js.out
cmp -s native.out js.out || { echo "VIOLATION: nosync.Map.Delete differs from sync.Map.Delete"; exit 1; }
