package main

import "math"

// A NaN with the sign bit set (-math.NaN(), or Float64frombits(0xfff8...)):
// Go's Signbit and Copysign look at the sign bit; the overrides test "x < 0 || 1/x == -Inf".
func main() {
	n := math.Float64frombits(0xfff8000000000001)
	println("sign bit survives Float64frombits/Float64bits:", math.Float64bits(n)>>63 == 1)
	println("Signbit(-NaN):", math.Signbit(n), " Signbit(-math.NaN()):", math.Signbit(-math.NaN()))
	println("Copysign(1, -NaN):", hx(math.Copysign(1, n)))
	println("Copysign(-1, -NaN):", hx(math.Copysign(-1, n)))
}
