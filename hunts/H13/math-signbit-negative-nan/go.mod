module negnan

go 1.20
