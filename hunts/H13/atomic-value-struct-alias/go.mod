module valias

go 1.20
