package main

import "sync/atomic"

type Config struct {
	Limit int
	Tags  [2]int
}

// atomic.Value.Store(x) stores the value x; changing the variable x afterwards
// must not change what Load returns (x is copied when it is converted to any).
// Under GopherJS the struct is wrapped without being cloned, so the Value and
// the variable share one object. (The cause is the compiler's struct-to-
// interface conversion - "var i any = s" alone shows it - the override
// "v.v = new" merely keeps the aliased object.)
func main() {
	var v atomic.Value
	c := Config{Limit: 1, Tags: [2]int{1, 2}}
	v.Store(c)
	c.Limit = 99
	c.Tags[1] = 99
	got := v.Load().(Config)
	println("after Store(c); c.Limit = 99:  Load().Limit =", got.Limit, " Load().Tags[1] =", got.Tags[1])

	old := v.Swap(Config{Limit: 2})
	println("Swap returned Limit =", old.(Config).Limit)
	println("CompareAndSwap(Config{Limit: 1, Tags: {1, 2}}, ...) on a fresh Value holding the original:", func() bool {
		var w atomic.Value
		d := Config{Limit: 1, Tags: [2]int{1, 2}}
		w.Store(d)
		d.Limit = 5
		return w.CompareAndSwap(Config{Limit: 1, Tags: [2]int{1, 2}}, Config{})
	}())

	var i any = c
	c.Limit = 7
	println("plain conversion: var i any = c; c.Limit = 7; i.(Config).Limit =", i.(Config).Limit)
}
