module trunc

go 1.20
