#!/bin/sh
# usage: run.sh /path/to/gopherjs ; exits 1 when the violation is observed
# expected output = output of the same program under native Go (go run .)
export GOFLAGS=-mod=mod GOPROXY=off GOSUMDB=off GOTOOLCHAIN=local GOPHERJS_SKIP_VERSION_CHECK=1 GO111MODULE=on
cd "$(dirname "$0")" || exit 2
go run . > native.out 2>&1 || { cat native.out; exit 2; }
"$1" build -o out.js . || exit 2
node out.js > js.out 2>&1
echo "--- native Go (expected)"; cat native.out; echo "--- gopherjs (observed)"; cat js.out
cmp -s native.out js.out || { echo "VIOLATION: outputs differ"; exit 1; }
