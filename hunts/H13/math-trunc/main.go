package main

import "math"

// math.Trunc (compiler/natives/src/math/math.go) is float64(int(x)) with a
// 32-bit int, so every |x| >= 2^31 is wrapped; and "1/x == -Inf" is used as the
// test for negative zero, which is also true for negative subnormals.
func main() {
	for _, x := range []float64{2147483647.5, 2147483648, 2147483649.5, 4294967295.5, 4294967296, 4294967296.5, 1e10 + 0.5, -1e10 - 0.5, 1e15 + 0.5, 4503599627370495.5, 9007199254740992, 1e300, -5e-324, -1e-310} {
		t := math.Trunc(x)
		println("Trunc", hx(x), "=", hx(t), "correct:", t == math.Copysign(math.Floor(math.Abs(x)), x))
	}
}
