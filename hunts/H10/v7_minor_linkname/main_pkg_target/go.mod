module v7a

go 1.20
