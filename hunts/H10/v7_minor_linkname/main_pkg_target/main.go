package main

import "v7a/a"

func impl(x int) int { return x * 100 }

func main() { println(a.CallUp()) }
