package main

import (
	_ "unsafe"
	_ "v7d/b"
)

//go:linkname f v7d/b.one
//go:linkname f v7d/b.two
func f() int

func main() { println(f()) }
