module v7d

go 1.20
