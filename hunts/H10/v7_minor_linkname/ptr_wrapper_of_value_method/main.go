package main

import (
	"t8/b"
	_ "unsafe"
)

//go:linkname viaPtr t8/b.(*T).valM
func viaPtr(t *b.T, x int) int

func main() {
	t := b.T{N: 10}
	println(viaPtr(&t, 1))
}
