module t8

go 1.20
