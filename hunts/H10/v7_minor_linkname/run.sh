#!/bin/bash
cd "$(dirname "$0")"; . ../common.sh
rc=0
check main_pkg_target "" || rc=1
check ptr_wrapper_of_value_method "" || rc=1
for d in onearg_without_unsafe duplicate_directive; do
( cd $d && rm -f out.js && "$GJS" build -o out.js . > build.log 2>&1
  if [ -f out.js ]; then echo "[$d] VIOLATION: accepted by gopherjs (prints $(node out.js 2>&1 | head -1)); native go build rejects it: $(go build -o /dev/null . 2>&1 | tail -1)"; exit 1
  else echo "[$d] rejected at build time: no violation"; exit 0; fi ) || rc=1
done
exit $rc
