module v7c

go 1.20
