package main

// No import of "unsafe" in this file.

//go:linkname f
func f() int { return 1 }

func main() { println(f()) }
