package main

import (
	"v3/b"
	_ "unsafe"
)

//go:linkname tOk v3/b.T.ok
func tOk(t b.T) int

//go:linkname tNew v3/b.T.new
func tNew(t b.T) int

//go:linkname tDelete v3/b.(*T).delete
func tDelete(t *b.T) int

func main() {
	t := b.T{N: 1}
	println("direct:", b.Direct(&t))
	println("ok:", tOk(t))
	println("new:", tNew(t))
	println("delete:", tDelete(&t))
}
