package b

type T struct{ N int }

func (t T) ok() int      { return t.N + 1 }
func (t T) new() int     { return t.N + 1000 }
func (t *T) delete() int { return t.N + 2000 }

// ordinary calls to these methods work
func Direct(t *T) int { return t.new() + t.delete() }
