package b

func hidden(x int) int { return x + 2 }
