package a

import _ "unsafe"

// Exported, body-less, implemented in package b through go:linkname.
//
//go:linkname Exported v2/b.hidden
func Exported(x int) int

// Calls from inside the declaring package work.
func Inside(x int) int { return Exported(x) }
