package main

import (
	"v2/a"
	_ "v2/b"
)

func main() {
	println("inside:", a.Inside(5))
	println("outside:", a.Exported(5))
}
