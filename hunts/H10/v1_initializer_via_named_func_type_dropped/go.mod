module v1

go 1.20
