package main

type F func(string) int

type G[T any] func(T) int

func impl(s string) int { println("init:", s); return len(s) }

var f F = impl
var g G[string] = impl

var u1 = f("u1 named func type")
var _ = f("blank named func type")
var u2 = g("u2 generic named func type")
var u3 = F(impl)("u3 converted")
var u4 = (f)("u4 parenthesised")
var u5 = impl("u5 plain (control)")
var u6 = func() F { return f }()("u6 returned")
var u7 = []F{impl}[0]("u7 indexed")

func main() { println("main") }
