#!/bin/bash
cd "$(dirname "$0")"; . ../common.sh
check . ""
