package b

type I64 int64

func (v I64) hi(x int) int { return int(v>>32) + x }

type U64 uint64

func (v U64) hi(x int) int { return int(v>>32) + x }

type I32 int32

func (v I32) val(x int) int { return int(v) + x }

func Direct(v I64) int { return v.hi(1) }
