package main

import (
	"v5/b"
	_ "unsafe"
)

//go:linkname i64hi v5/b.I64.hi
func i64hi(v b.I64, x int) int

//go:linkname i64hiRaw v5/b.I64.hi
func i64hiRaw(v int64, x int) int

//go:linkname u64hi v5/b.U64.hi
func u64hi(v b.U64, x int) int

//go:linkname i32val v5/b.I32.val
func i32val(v b.I32, x int) int

func main() {
	println("direct:", b.Direct(1<<40))
	println("int32 (control):", i32val(7, 1))
	println("int64:", i64hi(1<<40, 1))
	println("int64 raw:", i64hiRaw(1<<40, 1))
	println("uint64:", u64hi(1<<40, 1))
}
