module v5

go 1.20
