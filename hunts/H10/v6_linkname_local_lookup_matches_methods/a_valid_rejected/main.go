package main

import (
	_ "unsafe"
	_ "v6/b"
)

type T struct{}

// A method that has the same name as the linknamed function and comes first in the file.
func (T) f() int { return 5 }

//go:linkname f v6/b.impl
func f() int

func main() { println(f(), T{}.f()) }
