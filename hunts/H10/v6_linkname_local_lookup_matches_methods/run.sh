#!/bin/bash
cd "$(dirname "$0")"; . ../common.sh
rc=0
# (a) valid program must build and print "42 5"
check a_valid_rejected "" || rc=1
# (b) linkname on a variable must be rejected at build time
( cd b_var_accepted && rm -f out.js && "$GJS" build -o out.js . > build.log 2>&1
  if [ -f out.js ]; then echo "[b_var_accepted] VIOLATION: build accepted go:linkname on a variable; program prints: $(node out.js 2>&1 | head -1) (native Go prints 7)"; exit 1
  else echo "[b_var_accepted] rejected at build time: no violation"; cat build.log; exit 0; fi ) || rc=1
exit $rc
