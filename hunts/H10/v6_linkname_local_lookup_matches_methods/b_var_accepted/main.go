package main

import (
	_ "unsafe"
	_ "v6/b"
)

type T struct{}

// A body-less method (legal with the assembly stub file empty.s) named like the variable.
func (T) v() int

// go:linkname on a VARIABLE: unsupported by gopherjs, must be rejected at build time.
//
//go:linkname v v6/b.V
var v int

func main() { println(v) }
