module v6

go 1.20
