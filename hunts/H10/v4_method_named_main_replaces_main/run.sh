#!/bin/bash
cd "$(dirname "$0")"; . ../common.sh
rc=0
check . "" || rc=1
check . "-m" || rc=1
exit $rc
