package main

type T struct{}

func init() { println("init") }

func main() { println("main.main runs") }

// A method that happens to be called "main", declared after func main.
func (T) main() { println("method main") }

var _ = T.main
