module v4

go 1.20
