package main

import (
	"runtime"

	"github.com/gopherjs/gopherjs/js"
)

var yes = true

// up prints the JavaScript stack. The checker looks at the frame of the function that is running its deferred calls
// (the first frame above $callDeferred) and expects it to resolve to the line tagged @name: the return statement that
// is being executed, or the closing brace if the function falls off its end (this is what Go reports).
func up(name string) {
	println("STACK " + name + "\n" + js.Global.Get("Error").New().Get("stack").String())
}

func plainReturn() int {
	defer up("plainReturn")
	if yes {
		return 1 //@plainReturn
	}
	return 2
}

func plainFallOff() {
	defer up("plainFallOff")
	yes = !yes
} //@plainFallOff

func resumableReturn() int {
	runtime.Gosched()
	defer up("resumableReturn")
	if yes {
		runtime.Gosched()
	}
	return 2 //@resumableReturn
}

func resumableFallOff() { // the only form that is mapped
	runtime.Gosched()
	defer up("resumableFallOff")
	runtime.Gosched()
} //@resumableFallOff

func main() {
	plainReturn()
	plainFallOff()
	resumableReturn()
	resumableFallOff()
}
