#!/bin/sh
# usage: run.sh <gopherjs binary>; exits 1 when the violation is observed
cd "$(dirname "$0")"
export GOFLAGS=-mod=mod GOPROXY=off GOSUMDB=off GOTOOLCHAIN=local GOPHERJS_SKIP_VERSION_CHECK=1 GO111MODULE=on
"$1" build -o out.js . || exit 2
node resolve.js out.js | tee observed.txt
n=$(node -e "const s=JSON.parse(require('fs').readFileSync('out.js.map')).sources.filter(x=>/util\.go$/.test(x)); console.log(s.length)")
[ "$n" = 2 ] && { echo OK; exit 0; }
echo "VIOLATION: util.go of package main and sub/util.go are one source (\"util.go\") in the map"; exit 1
