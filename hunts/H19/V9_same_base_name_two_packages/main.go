package main

import "v9/sub"

func main() {
	helper()
	sub.Where()
}
