package main

// util.go of package main: line 7 of THIS file is a comment.
//
//
//
// (line 7)
func helper() {}
