package sub

import "github.com/gopherjs/gopherjs/js"

// Where prints the JavaScript stack taken in sub/util.go line 7.
func Where() {
	println("STACK\n" + js.Global.Get("Error").New().Get("stack").String())
}
