// first included file
this.incA = function (tag) {
  var x = 1;
  var y = x + 1;
  var st = new Error().stack; // LINE A
  var z = y + 2;
  var w = z * 3;
  console.log("JSSTACK " + tag + " a.inc.js 5\n" + st + "\nEND");
  return w;
};
