package main

import "github.com/gopherjs/gopherjs/js"

func main() {
	js.Global.Call("incA", "a")
	js.Global.Call("incB", "b")
}
