// second included file
this.incB = function (tag) {
  var p = 1;
  var q = p + 1;
  var r = q + 2;
  var s = r * 3;
  var st = new Error().stack; // LINE B
  var t = s - 4;
  console.log("JSSTACK " + tag + " b.inc.js 7\n" + st + "\nEND");
  return t;
};
