#!/bin/sh
# usage: run.sh <gopherjs binary>; exits 1 when the violation is observed
cd "$(dirname "$0")"
export GOFLAGS=-mod=mod GOPROXY=off GOSUMDB=off GOTOOLCHAIN=local GOPHERJS_SKIP_VERSION_CHECK=1 GO111MODULE=on
"$1" build -o out.js . || exit 2
"$1" build -m -o outm.js . || exit 2
echo "--- plain"; node checkjs.js . out.js | tee observed.plain.txt || { echo "VIOLATION (plain)"; exit 1; }
echo "--- minified"; node checkjs.js . outm.js | tee observed.min.txt
grep -q VIOLATION observed.plain.txt observed.min.txt && exit 1
echo OK
