#!/bin/sh
# usage: run.sh <gopherjs binary>; exits 1 when the violation is observed
cd "$(dirname "$0")"
export GOFLAGS=-mod=mod GOPROXY=off GOSUMDB=off GOTOOLCHAIN=local GOPHERJS_SKIP_VERSION_CHECK=1 GO111MODULE=on
"$1" build -o out.js . || exit 2
"$1" build --source_map=false -o outn.js . || exit 2
echo "length: 8" > expected.txt
node out.js > observed.map.txt 2>&1; node outn.js > observed.nomap.txt 2>&1
echo "with source map:    $(cat observed.map.txt)"; echo "--source_map=false: $(cat observed.nomap.txt)"
cmp -s expected.txt observed.map.txt || exit 1
cmp -s expected.txt observed.nomap.txt || { echo "VIOLATION: code bytes of a.inc.js were removed as if they were a hint"; exit 1; }
echo OK
