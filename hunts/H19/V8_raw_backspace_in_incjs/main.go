package main

import "github.com/gopherjs/gopherjs/js"

func main() {
	println("length:", js.Global.Call("incLen").Int())
}
