#!/bin/sh
# usage: run.sh <gopherjs binary>; exits 1 when the violation is observed
cd "$(dirname "$0")"
export GOFLAGS=-mod=mod GOPROXY=off GOSUMDB=off GOTOOLCHAIN=local GOPHERJS_SKIP_VERSION_CHECK=1 GO111MODULE=on
export GOPATH="$(pwd)/gopath"
(cd gopath/myproj && "$1" build -o out.js .) || exit 2
node -e "const s=JSON.parse(require('fs').readFileSync('gopath/myproj/out.js.map')).sources; console.log(s[s.length-1])" > observed.txt
cat observed.txt
grep -qx 'main.go\|myproj/main.go\|/myproj/main.go' observed.txt && { echo OK; exit 0; }
echo "VIOLATION: the module's main.go is named $(cat observed.txt) in the source map"; exit 1
