#!/bin/sh
# usage: run.sh <gopherjs binary>; exits 1 when the violation is observed
cd "$(dirname "$0")"
export GOFLAGS=-mod=mod GOPROXY=off GOSUMDB=off GOTOOLCHAIN=local GOPHERJS_SKIP_VERSION_CHECK=1 GO111MODULE=on
python3 gen.py 1382300 || exit 2      # writes main.go (1.4 MB, mostly a comment); the if statement is at token.Pos 1382300
echo "--- native"; go run . || exit 2
rm -f out.js out.js.map
echo "--- gopherjs build"; "$1" build -o out.js . > observed.txt 2>&1; st=$?
head -3 observed.txt
if grep -q "failed to unpack source map hint" observed.txt; then echo "VIOLATION: compiler panics, hint corrupted"; exit 1; fi
node out.js || exit 1
echo OK
