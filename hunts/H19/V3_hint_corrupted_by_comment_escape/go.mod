module v3

go 1.20
