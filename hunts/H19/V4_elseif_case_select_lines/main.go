package main

import (
	"runtime"

	"github.com/gopherjs/gopherjs/js"
)

// rec prints the JavaScript stack; the checker resolves frame 2 (the caller of T, I or C) and expects the line tagged @name.
func rec(name string) {
	println("STACK " + name + "\n" + js.Global.Get("Error").New().Get("stack").String())
}
func T(name string) bool           { rec(name); return true }
func I(name string) int            { rec(name); return 0 }
func C(name string) chan int       { rec(name); c := make(chan int, 1); c <- 1; return c }
func ignore(f func(), b bool) bool { return b }
func ignoreI(f func(), i int) int  { return i }

var no bool

// (a) resumable form: the body of the first branch blocks, so the whole if/else-if chain (switch) is flattened and all
// conditions are evaluated up front under the position of the first if (of the switch).
func flattened() {
	if no {
		runtime.Gosched()
	} else if T("a_elseif") { //@a_elseif
	}
	switch {
	case no:
		runtime.Gosched()
	case T("a_case"): //@a_case
	}
	switch I("a_tag") { //@a_tag
	case 1:
		runtime.Gosched()
	case 2, //@a_case2
		I("a_case2"):
	}
}

// (b) plain form: what the else-if / case condition emits after a function literal is mapped back to the first if
// (the switch) instead of the else-if (case) line.
func afterLiteral() {
	if no {
	} else if ignore(func() {}, T("b_elseif")) { //@b_elseif
	}
	switch 0 {
	case 1:
	case ignoreI(func() {}, I("b_case")): //@b_case
	}
}

// (c) the communication clauses of a select are SendStmt / RecvStmt on their own lines; their operands are mapped to
// the line of the select keyword.
func sel() {
	select {
	case <-C("c_recv"): //@c_recv
	case C("c_send") <- I("c_val"): //@c_send @c_val
	}
}

func main() {
	flattened()
	afterLiteral()
	sel()
}
