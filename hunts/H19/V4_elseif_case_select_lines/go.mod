module v4

go 1.20

require github.com/gopherjs/gopherjs v0.0.0
replace github.com/gopherjs/gopherjs => ../..
