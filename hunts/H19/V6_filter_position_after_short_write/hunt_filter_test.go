package sourcemapx

// Hunt test (dropped temporarily into internal/sourcemapx): streams of code interleaved with hints made by the real
// Hint.Pack/WriteTo, written through Filter under many chunkings; output and decoded mappings are compared with an
// independent computation over the unchunked stream.

import (
	"bytes"
	"encoding/json"
	"errors"
	"fmt"
	"go/token"
	"math/rand"
	"strings"
	"testing"
	"unicode/utf16"
	"unicode/utf8"
)

type hItem struct {
	code []byte // code bytes, or
	hint []byte // an encoded hint
	pos  token.Pos
	name string
	isID bool
}

type hMapping struct {
	gl, gc       int // generated line (0-based), column
	file         string
	ol, oc       int
	name         string
	hasSrc, hasN bool
}

func (m hMapping) String() string {
	return fmt.Sprintf("{%d:%d -> %q %d:%d %q}", m.gl, m.gc, m.file, m.ol, m.oc, m.name)
}

const b64 = "ABCDEFGHIJKLMNOPQRSTUVWXYZabcdefghijklmnopqrstuvwxyz0123456789+/"

func hDecodeVLQ(s string) ([]int, error) {
	var out []int
	shift, value := 0, 0
	for _, c := range s {
		d := strings.IndexRune(b64, c)
		if d < 0 {
			return nil, fmt.Errorf("bad char %q", c)
		}
		value += (d & 31) << shift
		if d&32 != 0 {
			shift += 5
			continue
		}
		neg := value&1 == 1
		value >>= 1
		if neg {
			value = -value
		}
		out = append(out, value)
		shift, value = 0, 0
	}
	if shift != 0 {
		return nil, errors.New("truncated")
	}
	return out, nil
}

func hDecodeMap(t *testing.T, data []byte) []hMapping {
	var m struct {
		Version  int
		File     string
		Sources  []string
		Names    []string
		Mappings string
	}
	if err := json.Unmarshal(data, &m); err != nil {
		t.Fatalf("map json: %v", err)
	}
	var res []hMapping
	src, ol, oc, nm := 0, 0, 0, 0
	for gl, line := range strings.Split(m.Mappings, ";") {
		gc := 0
		if line == "" {
			continue
		}
		for _, seg := range strings.Split(line, ",") {
			f, err := hDecodeVLQ(seg)
			if err != nil {
				t.Fatalf("vlq %q: %v", seg, err)
			}
			gc += f[0]
			hm := hMapping{gl: gl, gc: gc}
			if len(f) >= 4 {
				src += f[1]
				ol += f[2]
				oc += f[3]
				hm.hasSrc = true
				hm.file = m.Sources[src]
				hm.ol = ol + 1
				hm.oc = oc
			}
			if len(f) >= 5 {
				nm += f[4]
				hm.hasN = true
				hm.name = m.Names[nm]
			}
			res = append(res, hm)
		}
	}
	return res
}

func hMakeHint(t testing.TB, v any) []byte {
	h := Hint{}
	if err := h.Pack(v); err != nil {
		t.Fatalf("pack: %v", err)
	}
	buf := &bytes.Buffer{}
	if _, err := h.WriteTo(buf); err != nil {
		t.Fatalf("writeto: %v", err)
	}
	return buf.Bytes()
}

func hFileSet() (*token.FileSet, []*token.File) {
	fset := token.NewFileSet()
	var files []*token.File
	for i, n := range []int{1000, 300, 7} {
		f := fset.AddFile(fmt.Sprintf("/src/pkg%d/file%d.go", i, i), -1, n)
		var lines []int
		for o := 0; o < n; o += 1 + (o*7+i)%13 {
			lines = append(lines, o)
		}
		f.SetLines(lines)
		files = append(files, f)
	}
	return fset, files
}

var hCodePieces = []string{
	"a", "b = 1;", "\n", "\n\n", "\t", " ", "\r\n", "\r", "é", "日本語", "𝒳", " ", "x\ny", "function f() {", "}", "/* c */", "\"s\\b\"", "\x00", "\x07", "\x09",
	"\xff", "\xc3", "", "αβγ = \"δ\";\n", strings.Repeat("z", 300), strings.Repeat("\n", 40),
}

func hRandomStream(t testing.TB, r *rand.Rand, files []*token.File, n int) []hItem {
	var items []hItem
	for i := 0; i < n; i++ {
		switch k := r.Intn(10); {
		case k < 5:
			items = append(items, hItem{code: []byte(hCodePieces[r.Intn(len(hCodePieces))])})
		case k < 8:
			var pos token.Pos
			if r.Intn(5) != 0 {
				f := files[r.Intn(len(files))]
				pos = f.Pos(r.Intn(f.Size() + 1))
			}
			items = append(items, hItem{hint: hMakeHint(t, pos), pos: pos})
		default:
			var pos token.Pos
			if r.Intn(5) != 0 {
				f := files[r.Intn(len(files))]
				pos = f.Pos(r.Intn(f.Size() + 1))
			}
			names := []string{"", "main.F", "x\by", "\b\b\b", "é", strings.Repeat("\b", 200), strings.Repeat("n", 32000), "a\nb", "\x00"}
			id := Identifier{Name: names[r.Intn(len(names))], OriginalName: names[r.Intn(len(names))], OriginalPos: pos}
			items = append(items, hItem{hint: hMakeHint(t, id), pos: pos, name: id.OriginalName, isID: true})
		}
	}
	return items
}

// model computes the expected output and mappings over the unchunked stream.
func hModel(fset *token.FileSet, items []hItem) ([]byte, []hMapping) {
	var out []byte
	var ms []hMapping
	line, col := 0, 0
	for _, it := range items {
		if it.hint != nil {
			m := hMapping{gl: line, gc: col}
			p := fset.Position(it.pos)
			if p.IsValid() {
				m.hasSrc, m.file, m.ol, m.oc = true, p.Filename, p.Line, p.Column
				if it.name != "" {
					m.hasN, m.name = true, it.name
				}
			}
			ms = append(ms, m)
			continue
		}
		out = append(out, it.code...)
		for _, b := range it.code {
			if b == '\n' {
				line++
				col = 0
			} else {
				col++
			}
		}
	}
	return out, ms
}

func hRun(t *testing.T, fset *token.FileSet, writes [][]byte, w *bytes.Buffer) []hMapping {
	f := &Filter{Writer: w, FileSet: fset}
	f.EnableMapping("out.js", "/goroot", "/gopath", true)
	for _, p := range writes {
		n, err := f.Write(p)
		if err != nil || n != len(p) {
			t.Fatalf("Write(%d bytes) = %d, %v", len(p), n, err)
		}
	}
	mb := &bytes.Buffer{}
	if err := f.WriteMappingTo(mb); err != nil {
		t.Fatalf("WriteMappingTo: %v", err)
	}
	return hDecodeMap(t, mb.Bytes())
}

func hChunk(r *rand.Rand, items []hItem, mode int) [][]byte {
	var writes [][]byte
	switch mode {
	case 0: // everything in one write
		var all []byte
		for _, it := range items {
			all = append(all, it.code...)
			all = append(all, it.hint...)
		}
		return [][]byte{all}
	case 1: // every item its own write, code byte by byte
		for _, it := range items {
			if it.hint != nil {
				writes = append(writes, it.hint)
				continue
			}
			for i := range it.code {
				writes = append(writes, it.code[i:i+1])
			}
			writes = append(writes, nil)
		}
		return writes
	default: // random cut points anywhere in code, never inside a hint
		var cur []byte
		flush := func() { writes = append(writes, cur); cur = nil }
		for _, it := range items {
			if it.hint != nil {
				if r.Intn(3) == 0 {
					flush()
				}
				cur = append(cur, it.hint...)
				if r.Intn(3) == 0 {
					flush()
				}
				continue
			}
			for _, b := range it.code {
				cur = append(cur, b)
				if r.Intn(4) == 0 {
					flush()
				}
				if r.Intn(50) == 0 {
					flush()
					flush() // empty write
				}
			}
		}
		flush()
		return writes
	}
}

// sameMappings compares position by position. Mappings at one generated position must keep stream order, because a
// consumer takes the last mapping at or before a position.
func hCompare(t *testing.T, what string, got, want []hMapping) bool {
	if len(got) != len(want) {
		t.Errorf("%s: %d mappings, want %d", what, len(got), len(want))
		return false
	}
	for i := range got {
		if got[i] != want[i] {
			t.Errorf("%s: mapping %d = %v, want %v", what, i, got[i], want[i])
			return false
		}
	}
	return true
}

func TestHuntFilterStreams(t *testing.T) {
	fset, files := hFileSet()
	for seed := int64(0); seed < 300; seed++ {
		r := rand.New(rand.NewSource(seed))
		items := hRandomStream(t, r, files, 1+r.Intn(40))
		switch seed % 7 { // hint first / last / only hints
		case 1:
			items = append([]hItem{{hint: hMakeHint(t, files[0].Pos(5)), pos: files[0].Pos(5)}}, items...)
		case 2:
			items = append(items, hItem{hint: hMakeHint(t, files[1].Pos(9)), pos: files[1].Pos(9)})
		}
		wantOut, wantMap := hModel(fset, items)
		for mode := 0; mode < 6; mode++ {
			writes := hChunk(r, items, mode)
			w := &bytes.Buffer{}
			got := hRun(t, fset, writes, w)
			if !bytes.Equal(w.Bytes(), wantOut) {
				t.Errorf("seed %d mode %d: output differs:\n got %q\nwant %q", seed, mode, w.Bytes(), wantOut)
			}
			if bytes.IndexByte(w.Bytes(), HintMagic) >= 0 {
				t.Errorf("seed %d mode %d: hint magic in output", seed, mode)
			}
			if !hCompare(t, fmt.Sprintf("seed %d mode %d", seed, mode), got, wantMap) {
				return
			}
		}
	}
}

// Several hints in a row: the map must keep them in stream order (the last one is the one in force).
func TestHuntFilterHintsInARow(t *testing.T) {
	fset, files := hFileSet()
	var items []hItem
	for i := 0; i < 40; i++ {
		items = append(items, hItem{code: []byte("x;")})
		for j := 0; j < 3; j++ {
			p := files[0].Pos((i*3 + j) * 7)
			items = append(items, hItem{hint: hMakeHint(t, p), pos: p})
		}
	}
	_, want := hModel(fset, items)
	w := &bytes.Buffer{}
	got := hRun(t, fset, hChunk(nil, items, 0), w)
	hCompare(t, "hints in a row", got, want)
}

type hFailWriter struct {
	buf      bytes.Buffer
	failAt   int // fail once when this many bytes have been accepted
	failed   bool
	shortNil bool
}

var errTemporary = errors.New("temporary failure")

func (w *hFailWriter) Write(p []byte) (int, error) {
	if !w.failed && w.buf.Len()+len(p) > w.failAt {
		w.failed = true
		n := w.failAt - w.buf.Len()
		w.buf.Write(p[:n])
		if w.shortNil {
			return n, nil
		}
		return n, errTemporary
	}
	return w.buf.Write(p)
}

// A downstream writer accepts only part of a write and reports an error; Filter.Write reports n and the error. The
// caller resumes with p[n:] (the usual retry of a writer that reports progress). Output is complete then; the
// positions of later hints must still be the positions in the output.
func TestHuntFilterShortWrite(t *testing.T) {
	fset, files := hFileSet()
	p1, p2 := files[0].Pos(10), files[0].Pos(200)
	items := []hItem{
		{code: []byte("aaaaaaaaaa")}, {hint: hMakeHint(t, p1), pos: p1}, {code: []byte("bbbbbbbbbb\ncc")}, {hint: hMakeHint(t, p2), pos: p2}, {code: []byte("dd\n")},
	}
	wantOut, wantMap := hModel(fset, items)
	all := hChunk(nil, items, 0)[0]
	for failAt := 0; failAt <= len(wantOut); failAt++ {
		dw := &hFailWriter{failAt: failAt}
		f := &Filter{Writer: dw, FileSet: fset}
		f.EnableMapping("out.js", "/goroot", "/gopath", true)
		p := all
		for len(p) > 0 {
			n, err := f.Write(p)
			if n < 0 || n > len(p) {
				t.Fatalf("failAt %d: n = %d out of range", failAt, n)
			}
			if err == nil && n != len(p) {
				t.Fatalf("failAt %d: short write without error", failAt)
			}
			if err != nil && err != errTemporary {
				t.Fatalf("failAt %d: %v", failAt, err)
			}
			// the bytes reported as consumed must not cut a hint
			p = p[n:]
		}
		if !bytes.Equal(dw.buf.Bytes(), wantOut) {
			t.Errorf("failAt %d: output %q, want %q", failAt, dw.buf.Bytes(), wantOut)
			continue
		}
		mb := &bytes.Buffer{}
		f.WriteMappingTo(mb)
		got := hDecodeMap(t, mb.Bytes())
		if len(got) != len(wantMap) {
			t.Errorf("failAt %d: %d mappings, want %d: %v", failAt, len(got), len(wantMap), got)
			continue
		}
		for i := range got {
			if got[i] != wantMap[i] {
				t.Errorf("failAt %d: mapping %d = %v, want %v (output is %q)", failAt, i, got[i], wantMap[i], dw.buf.Bytes())
				break
			}
		}
	}
}

// Columns: consumers (V8 stack traces, browsers; ECMA-426) count generated columns in UTF-16 code units.
func TestHuntFilterColumnsUTF16(t *testing.T) {
	fset, files := hFileSet()
	p := files[0].Pos(10)
	code := "é.Ω(\"日本\");"
	items := []hItem{{code: []byte(code)}, {hint: hMakeHint(t, p), pos: p}, {code: []byte("next();\n")}}
	w := &bytes.Buffer{}
	got := hRun(t, fset, hChunk(nil, items, 0), w)
	want := len(utf16.Encode([]rune(code)))
	if got[0].gc != want {
		t.Errorf("column of the hint after %q = %d, want %d UTF-16 units (%d bytes, %d runes)", code, got[0].gc, want, len(code), utf8.RuneCountInString(code))
	}
}
