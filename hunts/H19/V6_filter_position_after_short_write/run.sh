#!/bin/sh
# usage: run.sh [ignored]; drops the test into internal/sourcemapx of the worktree, runs it, removes it again.
# exits 1 when TestHuntFilterShortWrite (or the UTF-16 column test) fails.
cd "$(dirname "$0")"
WT=$(cd ../.. && pwd)
export GOFLAGS=-mod=mod GOPROXY=off GOSUMDB=off GOTOOLCHAIN=local GOPHERJS_SKIP_VERSION_CHECK=1 GO111MODULE=on
cp hunt_filter_test.go "$WT/internal/sourcemapx/hunt_filter_test.go"
(cd "$WT" && go test -vet=off -count=1 -run 'TestHuntFilter' ./internal/sourcemapx/) > observed.txt 2>&1
rm -f "$WT/internal/sourcemapx/hunt_filter_test.go"
grep -E '^(--- |ok|FAIL)' observed.txt
grep -q -- '--- FAIL' observed.txt && exit 1
exit 0
