package main

import "github.com/gopherjs/gopherjs/js"

type Maß struct{ Größe int } // one field with two non-ASCII letters

func here(tag string) {
	println("STACK " + tag + "\n" + js.Global.Get("Error").New().Get("stack").String())
}

func main() {
	m := Maß{}
	m.Größe = 1
	println(m.Größe) // line 14
	here("a")        // line 15: the frame of main must resolve to main.go:15
	println(m.Größe) // line 16
	here("b")        // line 17
}
