#!/bin/sh
# usage: run.sh <gopherjs binary>; exits 1 when the violation is observed
cd "$(dirname "$0")"
export GOFLAGS=-mod=mod GOPROXY=off GOSUMDB=off GOTOOLCHAIN=local GOPHERJS_SKIP_VERSION_CHECK=1 GO111MODULE=on
"$1" build -o out.js . || exit 2
"$1" build -m -o outm.js . || exit 2
printf 'a -> main.go:15\nb -> main.go:17\n' > expected.txt
node resolve.js out.js > observed.plain.txt
node resolve.js outm.js > observed.min.txt
echo "--- plain"; cat observed.plain.txt; echo "--- minified"; cat observed.min.txt
cmp -s expected.txt observed.plain.txt || { echo "VIOLATION (plain build)"; exit 1; }
cmp -s expected.txt observed.min.txt || { echo "VIOLATION: minified build maps the frames to other lines"; exit 1; }
echo OK
