package main

import "runtime"

// Both operands of the send contain a call that suspends the goroutine.

func ch(name string, c chan int) chan int {
	println("channel operand", name)
	runtime.Gosched()
	return c
}

func val(name string, v int) int {
	println("value operand", name)
	runtime.Gosched()
	return v
}

func main() {
	a := make(chan int, 3)

	// send statement
	ch("s1", a) <- val("s1", 1)

	// send case of a select statement
	select {
	case ch("s2", a) <- val("s2", 2):
	}

	// the operands of a send may themselves be receive operations
	cc := make(chan chan int, 1)
	cc <- a
	vc := make(chan int, 1)
	vc <- 3
	// Go: receives from cc first; if it were empty the goroutine would park with vc untouched.
	empty := make(chan chan int)
	go func() { runtime.Gosched(); runtime.Gosched(); println("while main is parked on the channel operand: len(vc) =", len(vc)); empty <- a }()
	(<-empty) <- (<-vc)
	println("len(a) =", len(a))
}
