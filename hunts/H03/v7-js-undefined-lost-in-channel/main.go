package main

import "github.com/gopherjs/gopherjs/js"

func main() {
	c := make(chan *js.Object, 2)
	c <- js.Undefined
	println("len", len(c))
	v := <-c
	println("got", v == js.Undefined, "len", len(c))
}
