//go:build js

package main

import "github.com/gopherjs/gopherjs/js"

// Exactly what compiler/natives/src/time/time.go startTimer/stopTimer do.
type timer struct{ id *js.Object }

func startTimer(ms int, f func()) *timer {
	return &timer{js.Global.Call("$setTimeout", js.InternalObject(func() { go f() }), ms)}
}
func (t *timer) stop() { js.Global.Call("clearTimeout", t.id) }
