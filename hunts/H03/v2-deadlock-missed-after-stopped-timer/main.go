package main

func main() {
	c := make(chan int)
	t := startTimer(1000, func() { println("timer fired") })
	t.stop()
	println("timer stopped; blocking forever")
	<-c
	println("unreachable")
}
