//go:build !js

package main

import "time"

type timer struct{ t *time.Timer }

func startTimer(ms int, f func()) *timer {
	return &timer{time.AfterFunc(time.Duration(ms)*time.Millisecond, f)}
}
func (t *timer) stop() { t.t.Stop() }
