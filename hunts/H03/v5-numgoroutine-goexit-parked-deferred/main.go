package main

import "runtime"

func main() {
	c := make(chan int)
	done := make(chan bool)
	println("N start", runtime.NumGoroutine())
	go func() {
		defer func() {
			for i := 0; i < 3; i++ {
				<-c // the exiting goroutine parks here three times
			}
			close(done)
		}()
		runtime.Goexit()
	}()
	for i := 0; i < 3; i++ {
		runtime.Gosched()
		println("N while the exiting goroutine is parked in its deferred call", runtime.NumGoroutine())
		c <- i
	}
	<-done
	runtime.Gosched()
	println("N end", runtime.NumGoroutine())
}
