#!/bin/bash
# usage: run.sh /path/to/gopherjs   -- exits 1 when the violation is observed, 0 when the behaviour is correct
export GOFLAGS=-mod=mod GOPROXY=off GOSUMDB=off GOTOOLCHAIN=local GOPHERJS_SKIP_VERSION_CHECK=1 GO111MODULE=on
cd "$(dirname "$0")" || exit 3
GJS="${1:-/tmp/sa/H03.gopherjs}"
"$GJS" build -o out.js . 2>build.log || { cat build.log; exit 3; }
timeout 20 node out.js >stdout.txt 2>stderr.txt
code=$?
cat stdout.txt stderr.txt | grep -v "^\s*at \|^$\|node:internal\|Node.js v"
echo "exit status $code"
rm -f out.js out.js.map build.log
if diff <(grep -v "^exit status" expected.txt) stdout.txt >/dev/null; then echo OK; exit 0; fi
echo "VIOLATION: runtime.NumGoroutine() is wrong (goroutine counted as finished every time it parks after Goexit)"; exit 1
