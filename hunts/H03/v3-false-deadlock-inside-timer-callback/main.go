package main

func main() {
	c1 := make(chan bool)
	c2 := make(chan bool)
	afterFunc(10, func() {
		close(c1)
		println("callback between closes")
		close(c2)
	})
	<-c1
	println("main got c1")
	<-c2
	println("main got c2")
}
