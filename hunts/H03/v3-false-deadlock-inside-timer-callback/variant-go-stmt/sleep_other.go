//go:build !js

package main

import "time"

func sleep(ms int) { time.Sleep(time.Duration(ms) * time.Millisecond) }

func afterFunc(ms int, f func()) { time.AfterFunc(time.Duration(ms)*time.Millisecond, f) }
