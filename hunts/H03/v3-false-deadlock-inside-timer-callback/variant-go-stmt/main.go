package main

func main() {
	done := make(chan bool)
	afterFunc(10, func() {
		c := make(chan int, 1)
		go func() {
			println("worker waits")
			println("worker got", <-c)
			done <- true
		}()
		println("callback sends")
		c <- 1 // never blocks: buffered
	})
	<-done
	println("main done")
}
