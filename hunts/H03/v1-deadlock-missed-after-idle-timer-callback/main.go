package main

func main() {
	c := make(chan int)
	afterFunc(10, func() { println("timer") })
	<-c
	println("unreachable")
}
