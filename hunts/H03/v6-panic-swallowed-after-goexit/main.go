package main

import "runtime"

func main() {
	c := make(chan int)
	go func() {
		defer func() {
			close(c) // "send on closed channel" style panics behave the same; use explicit close twice
			close(c)
		}()
		runtime.Goexit()
	}()
	<-c
	runtime.Gosched()
	println("BUG: program survived an unrecovered panic")
}
