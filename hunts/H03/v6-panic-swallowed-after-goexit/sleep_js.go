//go:build js

package main

import "github.com/gopherjs/gopherjs/js"

func sleep(ms int) {
	c := make(chan struct{})
	js.Global.Call("$setTimeout", js.InternalObject(func() { close(c) }), ms)
	<-c
}

func afterFunc(ms int, f func()) {
	js.Global.Call("$setTimeout", js.InternalObject(f), ms)
}
