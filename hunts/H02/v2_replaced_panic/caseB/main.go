package main

// p-first is replaced by p-second, which a deferred call raises after having been
// suspended. The next deferred call recovers p-second; that ends p-first as well,
// so the last deferred call must see recover() == nil.
func f() {
	defer func() {
		e := recover()
		println("last deferred call: recover() == nil:", e == nil)
		if e != nil {
			println("  it returned:", e.(string))
		}
	}()
	defer func() {
		println("recovered:", recover().(string))
	}()
	defer func() {
		yield(0) // suspension point BEFORE the replacing panic
		panic("p-second")
	}()
	panic("p-first")
}

func main() {
	f()
	println("done")
}
