package main

import "runtime"

// A deferred call runs runtime.Goexit() while p-first is in flight. Goexit takes
// over the unwinding and p-first is aborted (Go runtime: the earlier panic is marked
// aborted; recover() in later deferred calls returns nil). Native Go prints
// "recover() == nil: true".
func f() {
	defer func() {
		println("recover() == nil:", recover() == nil)
	}()
	defer func() {
		yield(0) // suspension point before Goexit
		runtime.Goexit()
	}()
	panic("p-first")
}

func main() {
	done := make(chan bool)
	go func() {
		defer func() { done <- true }()
		f()
	}()
	<-done
	println("done")
}
