module v2

go 1.20
