package main

// A panic (p-first) is replaced by a second panic (p-second) raised by a
// deferred call; the next deferred call recovers p-second. Recovering the
// replacing panic also ends p-first (Go spec, "Handling panics"; runtime
// marks the earlier panic as aborted). The function returns normally.
func f() (r int) {
	defer func() {
		println("recovered:", recover().(string))
		r = yield(4) // suspension point AFTER the recover
	}()
	defer func() {
		panic("p-second")
	}()
	panic("p-first")
}

func main() {
	println("f returned", f())
	println("done")
}
