package main

// Both operands of a map index expression (and of delete) are calls that suspend in
// the "yield" build; each prints its name after it was resumed. Go evaluates the map
// operand first, then the key (lexical left-to-right order of calls).

var gm = map[int]int{1: 10}

func m() map[int]int { yield(0); println("  m()"); return gm }
func key(k int) int  { yield(0); println("  key()"); return k }

func main() {
	println("m()[key()]")
	x := m()[key(1)]
	println("v, ok := m()[key()]")
	v, ok := m()[key(1)]
	println("delete(m(), key())")
	delete(m(), key(1))
	println(x, v, ok, len(gm))
}
