module v8

go 1.20
