package main

// recover() is called directly by the deferred function in every case below, so it
// must stop the panic (native Go prints "recovered: true" six times, then "ok").
// The deferred methods are reached through a receiver-adapting proxy (value method
// called via pointer / interface / method expression / promoted through embedding).

type S struct{ tag string }

func (s S) Rec() {
	yield(0) // suspension point before recover()
	println(s.tag, "recovered:", recover() != nil)
}

type N int

func (n N) Rec() {
	yield(0)
	println("N recovered:", recover() != nil)
}

type R interface{ Rec() }
type E struct{ S }

func try(f func()) {
	defer func() {
		if recover() != nil {
			println("  panic escaped to the caller")
		} else {
			println("  ok")
		}
	}()
	f()
}

func main() {
	s := S{"S"}
	pn := new(N)
	try(func() { var r R = s; defer r.Rec(); panic("x") })       // interface holding a struct value
	try(func() { defer pn.Rec(); panic("x") })                   // value method through *N
	try(func() { var r R = pn; defer r.Rec(); panic("x") })      // interface holding *N
	try(func() { var r R = E{s}; defer r.Rec(); panic("x") })    // promoted through embedding
	try(func() { defer S.Rec(s); panic("x") })                   // method expression
	try(func() { defer s.Rec(); panic("x") })                    // direct (works in both builds)
}
