package main

// Every function called below suspends (in the "yield" build) and prints its name
// after it was resumed, so the trace shows the order in which the calls complete.
// Spec, "Assignment statements": "First, the operands of index expressions and
// pointer indirections [...] on the left and the expressions on the right are all
// evaluated in the usual order." - i.e. calls happen in lexical left-to-right order.

type S struct{ a int }

var (
	gsl = []int{0, 0, 0}
	gi  int
	gs  S
)

func sl() []int   { yield(0); println("  sl()"); return gsl }
func ptr() *int   { yield(0); println("  ptr()"); return &gi }
func sp() *S      { yield(0); println("  sp()"); return &gs }
func idx(k int) int { yield(0); println("  idx()"); return k }
func val(k int) int { yield(0); println("  val()"); return k }

func main() {
	println("sl()[idx()] = val()")
	sl()[idx(1)] = val(2)
	println("*ptr() = val()")
	*ptr() = val(3)
	println("sp().a = val()")
	sp().a = val(4)
	println(gsl[1], gi, gs.a)
}
