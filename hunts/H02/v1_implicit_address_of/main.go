package main

// Named non-struct types with pointer-receiver methods. Calling such a method on an
// addressable local variable takes the variable's address implicitly: s.Push(1) is
// (&s).Push(1).
type Stack []int

func (s *Stack) Push(k int) { *s = append(*s, k) } // does not suspend

type N int

func (n *N) Inc(k int) {
	yield(0) // suspension point inside the callee
	*n += N(k)
}

func main() {
	// 1. The callee does not suspend; the caller suspends between two method calls.
	var s Stack
	s.Push(1)
	yield(0)
	s.Push(2)
	println("len(s) =", len(s))

	// 2. The callee suspends.
	var x N
	x.Inc(1) // (&x).Inc(1)
	println("x =", x)

	// 3. Method value binding &y.
	var y N
	f := y.Inc
	f(2)
	println("y =", y)

	// 4. Explicit address of a parenthesized operand.
	z := 1
	p := &(z)
	yield(0)
	*p = 5
	println("z =", z)

	// 5. Post statement of a loop: (&i).Inc(1); the loop never advances.
	n := 0
	for i := N(0); i < 3 && n < 6; i.Inc(1) {
		println("i =", i)
		n++
	}
}
