module v7

go 1.20
