package main

// For defer and go statements "the function value and parameters to the call are
// evaluated as usual" (spec): the call that yields the function value / the method
// receiver comes first, then the argument calls. All calls below suspend in the
// "yield" build and print their name after they were resumed.

type T struct{}

func (*T) M(int) {}

type I interface{ M(int) }

func fn() func(int) { yield(0); println("  fn()"); return func(int) {} }
func recv() *T      { yield(0); println("  recv()"); return &T{} }
func iface() I      { yield(0); println("  iface()"); return &T{} }
func arg() int      { yield(0); println("  arg()"); return 1 }

func main() {
	println("defer fn()(arg())")
	defer fn()(arg())
	println("defer recv().M(arg())")
	defer recv().M(arg())
	println("defer iface().M(arg())")
	defer iface().M(arg())
	println("go fn()(arg())")
	go fn()(arg())
	println("plain call fn()(arg()) for comparison")
	fn()(arg())
}
