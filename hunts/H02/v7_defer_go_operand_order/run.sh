#!/bin/bash
# usage: run.sh /path/to/gopherjs
# Builds the program twice with the given gopherjs binary (plain, and with -tags yield, which
# turns yield(k) into a real suspension point), runs both under node and compares their output
# with expected.txt (the output of native Go, `go run .`, identical for both tag sets).
# Exit status: 1 = violation observed, 0 = not observed, 2 = could not build.
export GOFLAGS=-mod=mod GOPROXY=off GOSUMDB=off GOTOOLCHAIN=local GOPHERJS_SKIP_VERSION_CHECK=1 GO111MODULE=on
G=${1:?usage: run.sh /path/to/gopherjs}
cd "$(dirname "$0")" || exit 2
rc=0
for d in .; do
  ( cd $d || exit 2
    rm -f out_n.js out_y.js
    $G build -o out_n.js . >build.log 2>&1 && $G build --tags yield -o out_y.js . >>build.log 2>&1 || { echo "$d: build failed"; cat build.log; exit 2; }
    timeout 60 node out_n.js 2>&1 | head -c 20000 > observed_noyield.txt
    timeout 60 node out_y.js 2>&1 | head -c 20000 > observed_yield.txt
    rm -f out_n.js out_n.js.map out_y.js out_y.js.map
    bad=0
    if ! cmp -s expected.txt observed_yield.txt; then echo "$d: VIOLATION: output of the build with suspension points differs from native Go:"; diff expected.txt observed_yield.txt | head -30; bad=1; fi
    if ! cmp -s expected.txt observed_noyield.txt; then echo "$d: VIOLATION: output of the build without suspension points differs from native Go:"; diff expected.txt observed_noyield.txt | head -30; bad=1; fi
    if ! cmp -s observed_noyield.txt observed_yield.txt; then echo "$d: the two gopherjs builds (same program, with/without suspension) disagree"; fi
    exit $bad
  ) || rc=1
done
[ $rc = 0 ] && echo "no violation observed"
exit $rc
