package main

func main() {
	n := 0
s:
	for i := 0; i < 3; i++ {
		for j := 0; j < 3; j++ {
			if j == 1 {
				continue s
			}
			if i == 2 {
				break s
			}
			n += 10*i + j
		}
	}
	println(n, yield(1))
}
