module v10

go 1.20
