//go:build yield

package main

import "runtime"

var yieldCh = make(chan int)

func init() {
	go func() {
		for {
			v := <-yieldCh
			yieldCh <- v
		}
	}()
}

func yield(k int) int {
	runtime.Gosched()
	yieldCh <- k
	return <-yieldCh
}
