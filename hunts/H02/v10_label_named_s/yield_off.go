//go:build !yield

package main

func yield(k int) int { return k }
