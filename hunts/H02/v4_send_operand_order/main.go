package main

var c = make(chan int, 1)

func ch() chan int { yield(0); println("channel operand"); return c }
func val() int     { yield(0); println("value operand"); return 1 }

func main() {
	// Spec, "Order of evaluation": function calls in a statement happen in lexical
	// left-to-right order; "Select statements": "the channel and right-hand-side
	// expressions of send statements are evaluated exactly once, in source order".
	ch() <- val()
	<-c
	select {
	case ch() <- val():
		println("sent")
	}
}
