//go:build yield

package main

import "runtime"

var ych = make(chan int)

func init() {
	go func() {
		for {
			v := <-ych
			ych <- v
		}
	}()
}

func yield(k int) int {
	runtime.Gosched()
	ych <- k
	return <-ych
}
