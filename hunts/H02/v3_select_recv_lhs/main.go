package main

func idx(k int) int { return yield(k) } // suspends in the "yield" build

func main() {
	c := make(chan int, 2)
	c <- 10
	c <- 20
	a := []int{0, 0, 0}
	m := map[int]int{}

	select {
	case a[idx(1)] = <-c: // index expression of the receive target calls a suspending function
		println("a[1] =", a[1])
	}
	select {
	case m[idx(7)] = <-c:
		println("m[7] =", m[7], "len", len(m))
	}
	println("done")
}
