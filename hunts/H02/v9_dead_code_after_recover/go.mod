module v9

go 1.20
