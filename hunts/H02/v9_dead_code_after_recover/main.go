package main

func inner() int {
	defer func() {
		yield(0) // a deferred call of the panicking callee is suspended and resumed
		println("inner deferred")
	}()
	panic("p-first")
}

func outer() (r int) {
	defer func() {
		println("recovered:", recover().(string))
		r = 1
	}()
	defer func() {
		panic("p-second")
	}()
	r = inner()
	println("UNREACHABLE: outer continues after inner()", r)
	return 1000
}

func main() {
	println("outer returned", outer())
}
