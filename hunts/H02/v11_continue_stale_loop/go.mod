module v11

go 1.20
