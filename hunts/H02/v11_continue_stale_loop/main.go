package main

func main() {
	n := 0
	for i := 0; i < 4; i += yield(1) { // the post statement is a suspension point
		for j := 0; j < 2; j++ {
			func() { n++ }() // any function literal (or go statement, or select) inside an inner loop
		}
		if i%2 == 0 {
			continue // continues the OUTER loop, i.e. executes its suspending post statement
		}
		println("odd", i)
	}
	println(n)
}
