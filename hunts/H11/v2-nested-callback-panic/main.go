package main

import "github.com/gopherjs/gopherjs/js"

var log []string

func note(s string) { log = append(log, s); println(s) }

// outer calls JavaScript, which calls the Go function goPanics inside try/catch.
func outer() string {
	defer note("outer: deferred call runs")
	r := js.Global.Call("eval", "(function(){ try { goPanics(); return 'no exception' } catch (e) { return 'JS caught: ' + (e && e.message) } })()")
	note("outer: body continues after the JavaScript call, which returned: " + r.String())
	return "outer result"
}

func main() {
	js.Global.Set("goPanics", func() { panic("boom") })
	func() {
		defer func() {
			if r := recover(); r != nil {
				note("main: recovered " + r.(string))
			}
		}()
		note("main: outer returned: " + outer())
	}()

	// Whatever one takes the right behaviour at the Go/JavaScript boundary to be (the JavaScript catch clause
	// sees an Error carrying "boom" and outer goes on; or the panic unwinds everything up to main's recover),
	// a deferred call of outer must never run BEFORE outer's body continues, and JavaScript must never see `null`.
	bad := false
	deferredAt, continuesAt := -1, -1
	for i, s := range log {
		if s == "outer: deferred call runs" {
			deferredAt = i
		}
		if len(s) > 20 && s[:20] == "outer: body continue" {
			continuesAt = i
			if s[len(s)-4:] == "null" {
				println("VIOLATION: the JavaScript catch clause received null instead of an Error for the Go panic")
				bad = true
			}
		}
	}
	if deferredAt != -1 && continuesAt != -1 && deferredAt < continuesAt {
		println("VIOLATION: outer's deferred call ran (and main recovered the panic) while outer was still executing; outer then went on")
		bad = true
	}
	if !bad {
		println("OK")
	}
}
