#!/bin/sh
# usage: run.sh /path/to/gopherjs   -- exits 1 when the violation is observed, 0 when the behaviour is correct
export GOFLAGS=-mod=mod GOPROXY=off GOSUMDB=off GOTOOLCHAIN=local GOPHERJS_SKIP_VERSION_CHECK=1 GO111MODULE=on
cd "$(dirname "$0")" || exit 3
"$1" build -o out.js . || exit 3
node out.js > observed.now.txt 2>&1
cat observed.now.txt | cut -c1-300 | grep -v '^    at '
if grep -q '^VIOLATION' observed.now.txt; then echo "run.sh: VIOLATION OBSERVED"; exit 1; fi
if grep -q '^OK$' observed.now.txt; then echo "run.sh: behaviour correct"; exit 0; fi
echo "run.sh: unexpected output (neither OK nor the known violation)"; exit 1
