package main

import "github.com/gopherjs/gopherjs/js"

func main() {
	ok := true
	func() {
		defer func() {
			if r := recover(); r != nil {
				println("cycle through an array: PANIC:", r.(error).Error())
				ok = false
			}
		}()
		// Control: a direct cycle is handled (there is a cache for it in $internalize).
		o := js.Global.Call("eval", "(function(){ var o = {n: 1}; o.self = o; return o })()")
		m := o.Interface().(map[string]interface{})
		m["self"].(map[string]interface{})["mark"] = true
		println("direct cycle: converted, inner map is the outer map:", m["mark"] == true)

		// The same cycle, but passing through an array.
		o = js.Global.Call("eval", "(function(){ var o = {n: 1}; o.list = [o]; return o })()")
		m = o.Interface().(map[string]interface{})
		m["list"].([]interface{})[0].(map[string]interface{})["mark"] = true
		println("cycle through an array: converted, inner map is the outer map:", m["mark"] == true)
		if m["mark"] != true {
			ok = false
		}
	}()
	if ok {
		println("OK")
	} else {
		println("VIOLATION")
	}
}
