#!/bin/sh
# usage: run.sh /path/to/gopherjs   -- exits 1 when the violation is observed, 0 when the behaviour is correct
export GOFLAGS=-mod=mod GOPROXY=off GOSUMDB=off GOTOOLCHAIN=local GOPHERJS_SKIP_VERSION_CHECK=1 GO111MODULE=on
cd "$(dirname "$0")" || exit 3
"$1" build -o out.js . || exit 3
node out.js > observed.now.txt 2>&1
cat observed.now.txt | cut -c1-300 | grep -v '^    at '
# Acceptable: the documented error ("cannot block in JavaScript callback ...") is raised in the callback,
# or (more than documented) the blocking call simply works and every "callback: sent N" line appears and sum is 6.
if grep -q 'recovered error: runtime error: cannot block in JavaScript callback' observed.now.txt; then echo "run.sh: behaviour correct (documented error)"; exit 0; fi
if grep -q '^sum 6$' observed.now.txt && [ "$(grep -c '^callback: sent' observed.now.txt)" = 3 ]; then echo "run.sh: behaviour correct (blocking worked)"; exit 0; fi
echo "run.sh: VIOLATION OBSERVED (no documented error; goroutine state corrupted)"; exit 1
