package main

import (
	"github.com/gopherjs/gopherjs/js"
)

func main() {
	ch := make(chan int) // unbuffered: every send blocks until the consumer is ready
	done := make(chan int)
	go func() {
		sum := 0
		for v := range ch {
			println("consumer got", v)
			sum += v
		}
		done <- sum
	}()

	arr := js.Global.Get("Array").New()
	arr.Call("push", 1, 2, 3)

	var msg string
	func() {
		defer func() {
			if r := recover(); r != nil {
				msg = r.(error).Error()
			}
		}()
		// A Go function used as a JavaScript callback (called by Array.prototype.forEach).
		// It performs a blocking operation. Documented: this fails with
		// "cannot block in JavaScript callback, fix by wrapping code in goroutine".
		arr.Call("forEach", func(v *js.Object) {
			println("callback: sending", v.Int())
			ch <- v.Int()
			println("callback: sent", v.Int())
		})
	}()
	println("forEach returned; recovered error:", msg)
	close(ch)
	println("sum", <-done)
}
