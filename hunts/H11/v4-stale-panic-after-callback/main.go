package main

import "github.com/gopherjs/gopherjs/js"

func sleep(ms int) {
	c := make(chan struct{})
	js.Global.Call("$setTimeout", js.InternalObject(func() { close(c) }), ms)
	<-c
}

func main() {
	js.Global.Call("eval", `globalThis.results = [];
globalThis.later = function(name, f, ms) { setTimeout(function(){ try { results.push(name + " returned " + f()) } catch (e) { results.push(name + " threw " + (e && e.message)) } }, ms) }`)
	ch := make(chan int)

	// Callback 1 panics; while the panic unwinds, a deferred call performs a blocking operation, which fails with
	// the documented error. Nobody recovers; JavaScript catches the exception. (The same happens when the
	// deferred call simply panics itself: see callback 1b.)
	js.Global.Call("later", "cb1", func() int {
		defer func() { <-ch }()
		panic("first")
	}, 1)
	sleep(5)
	// Callback 2 is unrelated and returns normally. It happens to contain a deferred call.
	js.Global.Call("later", "cb2", func() int {
		defer func() {}()
		return 5
	}, 1)
	sleep(5)
	// Callback 1b: replaced panic without any blocking operation.
	js.Global.Call("later", "cb1b", func() int {
		defer func() { panic("second") }()
		panic("first-b")
	}, 1)
	sleep(5)
	// Callback 3: unrelated, not panicking; recover() must return nil.
	js.Global.Call("later", "cb3", func() string {
		s := "recover() returned nil"
		func() {
			defer func() {
				if r := recover(); r != nil {
					s = "recover() returned a stale panic value: " + r.(string)
				}
			}()
		}()
		return s
	}, 1)
	sleep(5)

	res := js.Global.Get("results")
	for i := 0; i < res.Length(); i++ {
		println(res.Index(i).String())
	}
	println("left on $noGoroutine.panicStack:", js.Global.Get("$noGoroutine").Get("panicStack").Length())
	if res.Index(1).String() == "cb2 returned 5" && res.Index(3).String() == "cb3 returned recover() returned nil" {
		println("OK")
	} else {
		println("VIOLATION: a panic that already left an earlier callback is delivered to a later, unrelated callback")
	}
}
