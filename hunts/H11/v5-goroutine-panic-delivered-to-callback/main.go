package main

import (
	"runtime"

	"github.com/gopherjs/gopherjs/js"
)

func sleep(ms int) {
	c := make(chan struct{})
	js.Global.Call("$setTimeout", js.InternalObject(func() { close(c) }), ms)
	<-c
}

func main() {
	work := make(chan int)
	// A worker goroutine that fails with a run-time panic after it received a value.
	// Go: "if the panic reaches the top of the goroutine's stack, the program terminates".
	go func() {
		<-work
		var m map[string]int
		m["x"] = 1
	}()
	runtime.Gosched() // the worker is parked on the channel now

	if argv := js.Global.Get("process").Get("argv"); argv.Length() > 2 && argv.Index(2).String() == "control" {
		// Control: the same worker woken up by a goroutine: the program dies (exit status 1, panic message on stderr).
		work <- 1
		sleep(10)
		println("control: still running?!")
		return
	}

	// A JavaScript callback hands the worker a value with a non-blocking send.
	js.Global.Call("setTimeout", func() {
		defer func() {
			if r := recover(); r != nil {
				println("callback: recover() returned a panic that is not the callback's own:", r.(error).Error())
			}
		}()
		select {
		case work <- 1:
		default:
		}
		println("callback: continues after the send")
	}, 1)
	sleep(10)
	println("VIOLATION: the program is still running although a goroutine died of an unrecovered panic")
}
