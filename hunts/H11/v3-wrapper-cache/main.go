package main

import "github.com/gopherjs/gopherjs/js"

type S struct{ N int }

// A and B are identical except for their names.
type A struct{ s *S }

func (t *A) Get() *S { return t.s }

type B struct{ s *S }

func (t *B) Get() *S { return t.s }

// wrapped reports whether o.Get() hands out a wrapper object (one that carries __internal_object__).
func wrapped(o *js.Object) bool {
	js.Global.Set("w", o)
	return js.Global.Call("eval", "w.Get().__internal_object__ !== undefined").Bool()
}

func main() {
	a := &A{s: &S{N: 3}}
	b := &B{s: &S{N: 3}}

	// Type A: the full wrapper is used first, then the plain wrapper.
	aFull := wrapped(js.MakeFullWrapper(a))
	aPlain := wrapped(js.MakeWrapper(a))
	// Type B: the plain wrapper is used first, then the full wrapper.
	bPlain := wrapped(js.MakeWrapper(b))
	bFull := wrapped(js.MakeFullWrapper(b))

	println("A: MakeFullWrapper(a).Get() is a wrapper:", aFull, " MakeWrapper(a).Get() is a wrapper:", aPlain)
	println("B: MakeFullWrapper(b).Get() is a wrapper:", bFull, " MakeWrapper(b).Get() is a wrapper:", bPlain)
	if aFull == bFull && aPlain == bPlain && aFull && !aPlain {
		println("OK")
	} else {
		println("VIOLATION: result of a wrapped method depends on which kind of wrapper called the method first")
	}
}
