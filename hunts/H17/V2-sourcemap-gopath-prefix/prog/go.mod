module example.com/p1

go 1.20
