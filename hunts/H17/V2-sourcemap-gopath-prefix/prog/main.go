package main

func main() { println("hi") }
