#!/bin/bash
# usage: run.sh <gopherjs binary>
# The same module is copied to two directories, neither of which is inside GOPATH or GOROOT.
# One of them merely has a path that starts with the same characters as $GOPATH
# ($GOPATH = .../work/gp, module in .../work/gp-projects/prog; compare: default GOPATH /root/go and a module in /root/gopher/...).
# Built with the same options (no --localmap) out.js and out.js.map must be identical.
G=${1:?gopherjs binary}
D=$(cd "$(dirname "$0")" && pwd)
export GOFLAGS=-mod=mod GOPROXY=off GOSUMDB=off GOTOOLCHAIN=local GOPHERJS_SKIP_VERSION_CHECK=1 GO111MODULE=on
W=$D/work; rm -rf $W; mkdir -p $W/gp $W/gp-projects $W/elsewhere
export GOPATH=$W/gp
cp -r $D/prog $W/gp-projects/prog; cp -r $D/prog $W/elsewhere/prog
for d in $W/gp-projects/prog $W/elsewhere/prog; do
  (cd $d && $G build -o out.js . ) || exit 2
  echo "$d:"; echo "  out.js     $(sha256sum < $d/out.js)"; echo "  out.js.map $(sha256sum < $d/out.js.map)"
  echo "  $(grep -o '"sources":\[[^]]*\]' $d/out.js.map)"
done
if ! cmp -s $W/gp-projects/prog/out.js.map $W/elsewhere/prog/out.js.map || ! cmp -s $W/gp-projects/prog/out.js $W/elsewhere/prog/out.js; then
  echo "VIOLATION: output depends on the directory the module lives in"; exit 1; fi
echo "ok: identical"; exit 0
