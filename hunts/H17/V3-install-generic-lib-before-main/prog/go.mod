module example.com/p10

go 1.20
