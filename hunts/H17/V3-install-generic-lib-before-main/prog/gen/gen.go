package gen

func Id[T any](v T) T { return v }
