package main

import "example.com/p10/gen"

func main() { println(gen.Id(42), gen.Id("s")) }
