#!/bin/bash
# usage: run.sh <gopherjs binary>
# ONE main package (zmain) and one generic library package (gen) in a module.
# `gopherjs install ./...` builds gen first (it sorts before zmain) and then zmain in the same session;
# `gopherjs install ./zmain` builds only zmain. Both must write the same zmain.js.
G=${1:?gopherjs binary}
D=$(cd "$(dirname "$0")" && pwd)
export GOFLAGS=-mod=mod GOPROXY=off GOSUMDB=off GOTOOLCHAIN=local GOPHERJS_SKIP_VERSION_CHECK=1 GO111MODULE=on
rm -rf $D/bin_all $D/bin_one; mkdir -p $D/bin_all $D/bin_one
cd $D/prog
GOBIN=$D/bin_all $G install ./...     || exit 2
GOBIN=$D/bin_one $G install ./zmain   || exit 2
echo "install ./zmain : $(sha256sum < $D/bin_one/zmain.js)  runs: $(node $D/bin_one/zmain.js 2>&1 | head -1)"
echo "install ./...   : $(sha256sum < $D/bin_all/zmain.js)  runs: $(node $D/bin_all/zmain.js 2>&1 | grep -m1 Error)"
if ! cmp -s $D/bin_all/zmain.js $D/bin_one/zmain.js || ! cmp -s $D/bin_all/zmain.js.map $D/bin_one/zmain.js.map; then
  echo "VIOLATION: zmain.js depends on what was built earlier in the session"; exit 1; fi
echo "ok: identical"; exit 0
