#!/bin/bash
# usage: run.sh <gopherjs binary>
# GOPATH-mode workspace: top-level package "x", package "b" with its own vendored "x" (b/vendor/x),
# main package m1 -> a -> x (top-level), main package m2 -> b -> x (must be b/vendor/x).
# `gopherjs install m1 m2` (ONE build session) must give the same m2.js as `gopherjs install m2` (fresh session).
G=${1:?gopherjs binary}
D=$(cd "$(dirname "$0")" && pwd)
export GOPROXY=off GOSUMDB=off GOTOOLCHAIN=local GOPHERJS_SKIP_VERSION_CHECK=1 GO111MODULE=off GOFLAGS=
export GOPATH=$D/gopath
rm -rf $D/bin_both $D/bin_fresh; mkdir -p $D/bin_both $D/bin_fresh
cd $D/gopath/src
GOBIN=$D/bin_both  $G install m1 m2 || exit 2
GOBIN=$D/bin_fresh $G install m2    || exit 2
echo "m2 built after m1 in one session prints: $(node $D/bin_both/m2.js 2>&1)"
echo "m2 built by a fresh session prints:      $(node $D/bin_fresh/m2.js 2>&1)"
a=$(sha256sum < $D/bin_both/m2.js); b=$(sha256sum < $D/bin_fresh/m2.js)
am=$(sha256sum < $D/bin_both/m2.js.map); bm=$(sha256sum < $D/bin_fresh/m2.js.map)
echo "m2.js     session: $a"; echo "m2.js     fresh:   $b"
echo "m2.js.map session: $am"; echo "m2.js.map fresh:   $bm"
if [ "$a" != "$b" ] || [ "$am" != "$bm" ]; then echo "VIOLATION: output of m2 depends on what was built earlier in the session"; exit 1; fi
echo "ok: identical"; exit 0
