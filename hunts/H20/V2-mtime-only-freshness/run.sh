#!/bin/bash
# usage: run.sh <gopherjs binary>   exits 1 if the violation is observed
. /tmp/sa/H20/_hunt/driver/lib.sh
cd $WORK
mk() {
  rm -rf s1; mkdir -p s1/lib
  printf 'module example.com/s1\n\ngo 1.20\n' > s1/go.mod
  printf 'package main\n\nimport "example.com/s1/lib"\n\nfunc main() { println("main", lib.Name()) }\n' > s1/main.go
  printf 'package lib\n\nfunc Name() string { return "lib v1" }\n' > s1/lib/lib.go
  printf 'package lib\n\nfunc init() { println("extra.go init") }\n' > s1/lib/extra.go
  find s1 -type f -exec touch -d '2026-01-01' {} +
}
check() { # label
  $BUILD s1 $WORK/got.js $C | grep -E "s1|ERROR"
  baseline s1 $WORK/exp.js
  expect_same "$1" "$(node $WORK/got.js 2>&1 | paste -sd'|')" "$(node $WORK/exp.js 2>&1 | paste -sd'|')"
}
C=$WORK/cache
mk; rm -rf $C; $BUILD s1 $WORK/first.js $C >/dev/null
rm s1/lib/extra.go
check "(a) a source file of the package was deleted"

mk; rm -rf $C; $BUILD s1 $WORK/first.js $C >/dev/null
sed -i 's/lib v1/lib v2/' s1/lib/lib.go; touch -d '2026-01-02' s1/lib/lib.go   # e.g. restored from a backup / tar / rsync -a / cp -p
check "(b) a source file was replaced by one with different content and an mtime older than the entry"

mk; rm -rf $C; $BUILD s1 $WORK/first.js $C >/dev/null
printf 'package lib\n\nfunc init() { println("added.go init") }\n' > s1/lib/added.go; touch -d '2026-01-02' s1/lib/added.go
check "(c) a source file with an old mtime was added (mv / cp -p / tar x)"

mk; rm -rf $C; $BUILD s1 $WORK/first.js $C >/dev/null
sed -i 's/lib v1/lib v3/' s1/lib/lib.go
check "(control) ordinary edit with a new mtime"
finish
