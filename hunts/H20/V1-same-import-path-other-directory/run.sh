#!/bin/bash
# usage: run.sh <gopherjs binary>   exits 1 if the violation is observed
. /tmp/sa/H20/_hunt/driver/lib.sh
cd $WORK
# --- (a) two checkouts of the same module (same import paths, different directories, different code)
for d in A B; do
  mkdir -p twin/$d/lib
  printf 'module example.com/app\n\ngo 1.20\n' > twin/$d/go.mod
  printf 'package main\n\nimport "example.com/app/lib"\n\nfunc main() { println("main of checkout %s,", lib.Name()) }\n' $d > twin/$d/main.go
  printf 'package lib\n\nfunc Name() string { return "lib of checkout %s" }\n' $d > twin/$d/lib/lib.go
done
find twin -type f -exec touch -d '2026-01-01' {} +   # nothing was edited recently
C=$WORK/cacheA
$BUILD twin/A $WORK/A.js $C | grep -E "example|ERROR"
$BUILD twin/B $WORK/B.js $C | grep -E "example|ERROR"
baseline twin/B $WORK/Bexp.js
expect_same "(a) build of checkout B after checkout A was built" "$(node $WORK/B.js 2>&1)" "$(node $WORK/Bexp.js 2>&1)"

# --- (b) a dependency is switched to another directory in go.mod (replace; the same happens with a version bump or -mod=vendor)
mkdir -p rep/app rep/dep_v1 rep/dep_v2
for v in v1 v2; do printf 'module example.com/dep\n\ngo 1.20\n' > rep/dep_$v/go.mod; printf 'package dep\n\nfunc Version() string { return "dep %s" }\n' $v > rep/dep_$v/dep.go; done
printf 'module example.com/app2\n\ngo 1.20\n\nrequire example.com/dep v0.0.0\n\nreplace example.com/dep => ../dep_v1\n' > rep/app/go.mod
printf 'package main\n\nimport "example.com/dep"\n\nfunc main() { println("using", dep.Version()) }\n' > rep/app/main.go
find rep -type f -exec touch -d '2026-01-01' {} +
C=$WORK/cacheB
$BUILD rep/app $WORK/r1.js $C | grep -E "example|ERROR"
sed -i 's|../dep_v1|../dep_v2|' rep/app/go.mod
$BUILD rep/app $WORK/r2.js $C | grep -E "example|ERROR"
baseline rep/app $WORK/r2exp.js
expect_same "(b) build after go.mod now points example.com/dep at dep_v2" "$(node $WORK/r2.js 2>&1)" "$(node $WORK/r2exp.js 2>&1)"

# --- (c) `gopherjs build script.go` stores its ephemeral package under the import path "main";
#         a module that is called "main" then gets the script instead of its own code
mkdir -p eph/adhoc eph/proj
printf 'package main\n\nfunc main() { println("ad-hoc script") }\n' > eph/adhoc/script.go
printf 'module main\n\ngo 1.20\n' > eph/proj/go.mod
printf 'package main\n\nfunc main() { println("the real project") }\n' > eph/proj/main.go
touch -d 2026-01-01 eph/proj/*
C=$WORK/cacheC
HUNT_FILES=script.go $BUILD eph/adhoc $WORK/ad.js $C | grep -E "CACHE (load|store) main|ERROR"
$BUILD eph/proj $WORK/pr.js $C | grep -E "CACHE (load|store) main|ERROR"
baseline eph/proj $WORK/prexp.js
expect_same "(c) build of module 'main' after an ad-hoc file build" "$(node $WORK/pr.js 2>&1)" "$(node $WORK/prexp.js 2>&1)"
finish
