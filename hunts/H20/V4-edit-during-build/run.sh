#!/bin/bash
# usage: run.sh <gopherjs binary>   exits 1 if the violation is observed
. /tmp/sa/H20/_hunt/driver/lib.sh
cd $WORK
mkdir race
printf 'module example.com/race\n\ngo 1.20\n' > race/go.mod
printf 'package main\n\nfunc main() { println("version 1") }\n' > race/main.go
C=$WORK/cache
# Build 1: main.go is rewritten ("version 2") right after the compiler has read it (hook on the
# package's build.Context.OpenFile: the edit happens when the parser closes the file).
HUNT_TEST=TestHuntEditDuringBuild $BUILD race $WORK/b1.js $C | grep -E "race|ERROR"
echo "build 1 prints: $(node $WORK/b1.js) (fine: it read the file before the edit); main.go now says: $(grep -o 'version [0-9]' race/main.go)"
sleep 1
$BUILD race $WORK/b2.js $C | grep -E "race|ERROR"
baseline race $WORK/b2exp.js
expect_same "build 2, nothing touched since the edit" "$(node $WORK/b2.js 2>&1)" "$(node $WORK/b2exp.js 2>&1)"
finish
