#!/bin/bash
# usage: run.sh <gopherjs binary>   exits 1 if the violation is observed
# The embed package cannot be compiled in this sandbox (Go 1.23 GOROOT), so the program is only
# loaded (Session.LoadPackages: parse, augment, embed, cache) and the constants of the generated
# js_embed.go are printed; these are what the compiler would turn into JavaScript.
. /tmp/sa/H20/_hunt/driver/lib.sh
cd $WORK
mkdir emb
printf 'module example.com/emb\n\ngo 1.20\n' > emb/go.mod
printf 'package main\n\nimport _ "embed"\n\n//go:embed hello.txt\nvar hello string\n\nfunc main() { println("embedded:", hello) }\n' > emb/main.go
printf 'content v1' > emb/hello.txt
C=$WORK/cache
HUNT_TEST=TestHuntLoadOnly $BUILD emb x $C | grep -E "emb|EMBEDDED"
sleep 1
printf 'content v2 (edited now, new mtime)' > emb/hello.txt
got=$(HUNT_TEST=TestHuntLoadOnly $BUILD emb x $C | grep -E "emb|EMBEDDED")
echo "$got"
exp=$(HUNT_TEST=TestHuntLoadOnly $BUILD emb x "" | grep EMBEDDED)
expect_same "embedded file edited after the package was cached" "$(echo "$got" | grep EMBEDDED)" "$exp"
finish
