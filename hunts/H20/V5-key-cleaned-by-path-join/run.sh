#!/bin/bash
# usage: run.sh   (no compiled program involved)   exits 1 if the violation is observed
export GOFLAGS=-mod=mod GOPROXY=off GOSUMDB=off GOTOOLCHAIN=local GOPHERJS_SKIP_VERSION_CHECK=1 GO111MODULE=on
WT=/tmp/sa/H20; D=$(dirname $(readlink -f $0))
cp $D/zz_v5_test.go $WT/build/cache/
out=$(mktemp); (cd $WT && go test -vet=off -count=1 -run 'TestV5' ./build/cache/ > $out 2>&1); rc=$?
grep -v 'level=' $out; rm -f $out
rm -f $WT/build/cache/zz_v5_test.go
exit $rc
