package cache

import "testing"

type v5payload struct{ Data string }

func (m *v5payload) Write(encode func(any) error) error { return encode(m.Data) }
func (m *v5payload) Read(decode func(any) error) error  { return decode(&m.Data) }

// cachedPath feeds "package"/commonKey/importPath through path.Join, which CLEANS the result: "//", "/./"
// and "x/.." are removed - also inside the %#v dump of the configuration, which contains GOROOT and GOPATH.
func TestV5ConfigurationsCollide(t *testing.T) {
	cacheForTest(t)
	pairs := [][2]BuildCache{
		// /usr/local/go1.20 may be a symlink to another tree, so these are two different GOROOTs.
		{{GOROOT: "/usr/local/go1.20/../go"}, {GOROOT: "/usr/local/go"}},
		{{GOPATH: "/home/b/../a/go"}, {GOPATH: "/home/a/go"}},
		{{GOOS: "linux/../x"}, {GOOS: "windows/../x"}},
		// ".." swallows everything back to the previous slash, here the whole GOPATH tail:
		{{GOPATH: "/home/u/one", BuildTags: []string{"q/../t"}}, {GOPATH: "/home/u/two", BuildTags: []string{"r/../t"}}},
	}
	for _, p := range pairs {
		a, b := p[0], p[1]
		if !a.Store(&v5payload{"stored by configuration A"}, "some/pkg", newTime(5)) {
			t.Fatal("store failed")
		}
		got := &v5payload{}
		if b.Load(got, "some/pkg", newTime(0)) {
			t.Errorf("entry stored under\n   %v\nwas returned for\n   %v\n   (%q)", a, b, got.Data)
		}
		Clear()
	}
}
