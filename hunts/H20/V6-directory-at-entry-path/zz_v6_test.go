package cache

import (
	"os"
	"path/filepath"
	"testing"
)

type v6payload struct{ Data string }

func (m *v6payload) Write(encode func(any) error) error { return encode(m.Data) }
func (m *v6payload) Read(decode func(any) error) error  { return decode(&m.Data) }

// A directory sits where the entry file should be (e.g. left by an interrupted `mkdir -p`/restore, or a
// hostile/buggy cleaner). Load correctly misses, but Store can never repair the entry, and every
// attempt leaves its complete temporary file behind (the rename-failure path does not remove it).
func TestV6DirectoryAtEntryPath(t *testing.T) {
	cacheForTest(t)
	bc := &BuildCache{}
	const ip = "some/pkg"
	p := cachedPath(bc.packageKey(ip))
	if err := os.MkdirAll(p, 0o755); err != nil {
		t.Fatal(err)
	}
	if bc.Load(&v6payload{}, ip, newTime(0)) {
		t.Errorf("Load hit on a directory")
	}
	for i := 0; i < 5; i++ {
		if bc.Store(&v6payload{"x"}, ip, newTime(5)) {
			t.Logf("store %d succeeded", i)
		}
	}
	if !bc.Load(&v6payload{}, ip, newTime(0)) {
		t.Errorf("entry was not repaired by 5 Stores")
	}
	es, _ := os.ReadDir(filepath.Dir(p))
	if len(es) != 1 {
		var names []string
		for _, e := range es {
			names = append(names, e.Name())
		}
		t.Errorf("5 failed Stores left %d temporary files behind: %v", len(es)-1, names)
	}
}
