package main

import "runtime"

func f() {
	defer func() {
		println("recovered:", recover().(string))
		runtime.Gosched()
		println("deferred function resumed")
	}()
	defer func() { panic("second") }()
	panic("first")
}

func main() {
	f()
	println("main: f returned normally")
}
