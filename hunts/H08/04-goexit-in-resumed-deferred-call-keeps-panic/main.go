package main

import "runtime"

func f() {
	defer func() {
		if r := recover(); r != nil {
			println("recover returned", r.(string), "(must be nil: Goexit aborted the panic)")
		} else {
			println("recover returned nil")
		}
	}()
	defer func() {
		runtime.Gosched() // the deferred call suspends the goroutine while the panic is in flight
		runtime.Goexit()
	}()
	panic("p")
}

func main() {
	done := make(chan bool)
	go func() {
		defer close(done)
		f()
		println("unreachable")
	}()
	<-done
	println("main done")
}
