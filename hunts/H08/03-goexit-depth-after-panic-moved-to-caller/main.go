package main

import "runtime"

func withDefer() {
	defer println("withDefer: deferred call ran")
}

func inner() {
	defer func() { panic("A") }()
	runtime.Goexit()
}

func outer() {
	defer func() {
		withDefer()
		println("outer deferred: after withDefer()")
		if r := recover(); r != nil {
			println("outer deferred: recovered", r.(string))
		} else {
			println("outer deferred: recover returned nil")
		}
	}()
	inner()
}

func main() {
	done := make(chan bool)
	go func() {
		defer close(done)
		outer()
	}()
	<-done
	println("main done")
}
