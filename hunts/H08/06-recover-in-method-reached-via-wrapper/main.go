package main

type T struct{ n int }

func (t T) Rec() { println("  T.Rec: recovered =", recover() != nil) }

type N int

func (n N) Rec() { println("  N.Rec: recovered =", recover() != nil) }

type I interface{ Rec() }

type E struct{ T }   // promotes T.Rec
type EI struct{ I }  // promotes I.Rec
type G[X any] struct{ x X }

func (g G[X]) Rec() { println("  G.Rec: recovered =", recover() != nil) }

func run(name string, f func()) {
	println(name)
	defer func() {
		if r := recover(); r != nil {
			println("  NOT RECOVERED, panic", r.(string), "reached the caller")
		}
	}()
	f()
}

func main() {
	// control: these work
	run("defer t.Rec()", func() { defer T{1}.Rec(); panic("x") })
	run("defer i.Rec(), i holds *T", func() { var i I = &T{1}; defer i.Rec(); panic("x") })
	// the deferred function is the method itself in all of the following; it calls recover directly
	run("defer i.Rec(), i holds T", func() { var i I = T{1}; defer i.Rec(); panic("x") })
	run("defer T.Rec(t)", func() { defer T.Rec(T{1}); panic("x") })
	run("defer I.Rec(t)", func() { defer I.Rec(T{1}); panic("x") })
	run("defer p.Rec(), p *N", func() { n := N(1); p := &n; defer p.Rec(); panic("x") })
	run("defer (*N).Rec(p)", func() { n := N(1); defer (*N).Rec(&n); panic("x") })
	run("defer i.Rec(), i holds *N", func() { n := N(1); var i I = &n; defer i.Rec(); panic("x") })
	run("defer i.Rec(), i holds E (promoted)", func() { var i I = E{T{1}}; defer i.Rec(); panic("x") })
	run("defer i.Rec(), i holds *E (promoted)", func() { var i I = &E{T{1}}; defer i.Rec(); panic("x") })
	run("defer e.Rec(), e EI{T} (promoted through embedded interface)", func() { e := EI{T{1}}; defer e.Rec(); panic("x") })
	run("defer i.Rec(), i holds G[int]", func() { var i I = G[int]{1}; defer i.Rec(); panic("x") })
	run("f := i.Rec; defer f(), i holds T", func() { var i I = T{1}; f := i.Rec; defer f(); panic("x") })
}
