package main

func report(name string, f func()) {
	defer func() {
		if r := recover(); r != nil {
			println(name, "-> panic", r.(string), "reached the caller")
		} else {
			println(name, "-> returned normally")
		}
	}()
	f()
}

func direct() {
	defer recover() // recover is not called BY a deferred function: it must return nil and not stop the panic
	panic("p1")
}

func nested() {
	defer func() {
		defer recover() // called (as a deferred call) directly by the deferred function: gc recovers here
	}()
	panic("p2")
}

func main() {
	report("defer recover()", direct)
	report("defer func() { defer recover() }()", nested)
}
