#!/bin/bash
# usage: run.sh /path/to/gopherjs   -- exits 1 when the violation is observed (output differs from native Go's, see expected.txt)
export GOFLAGS=-mod=mod GOPROXY=off GOSUMDB=off GOTOOLCHAIN=local GOPHERJS_SKIP_VERSION_CHECK=1 GO111MODULE=on
cd "$(dirname "$0")" || exit 3
GJS=${1:?usage: run.sh /path/to/gopherjs}
"$GJS" build -o out.js . || exit 3
timeout 30 node out.js > observed.raw 2>&1
st=$?
# normalise: drop JS stack traces / node banner, map an uncaught JS "Error: x" (exit 1) onto Go's "panic: x" (exit 2)
grep -v '^    at \|^\s*$\|^Node.js\|^\s*\^\|out.js:[0-9]*$\|^\s*throw \|^\s*\$' observed.raw | sed 's/^Error: /panic: /' > observed.txt
if [ $st -eq 1 ]; then st=2; fi
echo "exit status $st" >> observed.txt
rm -f out.js out.js.map observed.raw
if diff -u expected.txt observed.txt; then echo "OK: same as native Go"; exit 0; fi
echo "VIOLATION: output differs from native Go (expected.txt)"; exit 1
