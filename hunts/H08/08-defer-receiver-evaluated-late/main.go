package main

import "runtime"

type N int

func (n N) Show() { println("  N.Show receiver =", int(n)) }

type EN struct{ *N }

func run(name string, f func()) {
	println(name)
	defer func() {
		if r := recover(); r != nil {
			println("  panic:", r.(runtime.Error).Error())
		}
	}()
	f()
}

func main() {
	// p.Show() with p of type *N is shorthand for (*p).Show(): the receiver value *p is an operand of the
	// deferred call and is evaluated (copied) when the defer statement executes.
	run("defer p.Show(); n = 2", func() { n := N(1); p := &n; defer p.Show(); n = 2 })
	run("defer e.Show() (embedded *N); n = 2", func() { n := N(1); e := EN{&n}; defer e.Show(); n = 2 })
	run("go p.Show(); n = 2", func() {
		n := N(1)
		p := &n
		go p.Show()
		n = 2
		runtime.Gosched()
	})
	// ... and with a nil pointer the dereference panics AT the defer statement
	run("defer p.Show() with nil p", func() {
		var p *N
		println("  before defer")
		defer p.Show()
		println("  after defer (must not be reached)")
	})
}
