package main

import "runtime"

func main() {
	done := make(chan bool)
	go func() {
		defer close(done)
		defer func() { panic("after-goexit") }()
		runtime.Goexit()
	}()
	<-done
	runtime.Gosched()
	println("main continues: BAD")
}
