module hunt/repro

go 1.20
