package main

import "runtime"

type I interface{ Show() }

func try(name string, f func()) {
	defer func() {
		r := recover()
		if e, ok := r.(runtime.Error); ok {
			println(name, "runtime.Error:", e.Error())
		} else if e, ok := r.(error); ok {
			println(name, "NOT a runtime.Error:", e.Error())
		} else {
			println(name, "no panic")
		}
	}()
	f()
}

func main() {
	var i I
	try("direct call", func() { i.Show() })
	try("method value", func() { f := i.Show; _ = f })
	try("defer", func() { defer i.Show() })
	try("go", func() { go i.Show(); runtime.Gosched() })
}
