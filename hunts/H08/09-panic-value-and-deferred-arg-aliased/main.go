package main

type V struct{ a, b int }

func show(tag string, r interface{}) {
	switch v := r.(type) {
	case V:
		println(tag, v.a)
	case [2]int:
		println(tag, v[0])
	}
}

func panicStruct() {
	v := V{1, 2}
	defer func() { show("recovered value of panic(v), v struct: v.a =", recover()) }()
	defer func() { v.a = 100 }() // runs while the panic is in flight; must not change the panic value
	panic(v)
}

func panicArray() {
	v := [2]int{1, 2}
	defer func() { show("recovered value of panic(v), v array: v[0] =", recover()) }()
	defer func() { v[0] = 100 }()
	panic(v)
}

func deferArg() {
	v := V{1, 2}
	defer show("defer show(.., v) then v.a = 100: deferred call sees v.a =", v) // argument evaluated here
	v.a = 100
}

func main() {
	panicStruct()
	panicArray()
	deferArg()
}
