package main

import "runtime"

func X() {
	defer func() {
		runtime.Gosched()
		r := recover()
		if r == nil {
			println("X: recover returned nil")
		} else {
			println("X: recovered", r.(string))
		}
	}()
	panic("x")
}

func F() {
	defer func() {
		X()
		println("F: after X")
	}()
}

func main() {
	F()
	println("main: after F")
}
