//go:build !js
