//go:build !(js && yieldr)

package y

// maybe does nothing (D build and native build): atoms are plain functions, so statically resolved callers
// are compiled in direct form.
func maybe(k int) {}
