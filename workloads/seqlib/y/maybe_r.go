//go:build js && yieldr

package y

import "github.com/gopherjs/gopherjs/js"

// maybe suspends the goroutine if the choice tape says so (R build): the blocking analysis must mark every
// path to it, so callers are compiled in resumable form.
func maybe(k int) {
	if js.Global.Call("simYield", k).Bool() {
		saved := Cur
		defer func() { Cur = saved }()
		c := make(chan struct{})
		js.Global.Call("$setTimeout", js.InternalObject(func() { close(c) }), js.Global.Call("simDelay").Int())
		<-c
	}
}
