// Package y is the helper library of generated sequential programs (seqgen). A yield atom Y(k) returns k,
// prints its own occurrence (-k) and - in the R build only - may suspend the goroutine. Everything else here
// exists to reach an atom through each kind of call the C02 statement lists.
package y

// Cur tags every printed line with the scenario (goroutine) that printed it. Goroutines are only switched
// inside maybe(), which saves and restores it across the suspension.
var Cur int

// Tr records a trace value: printed at once, so that output survives a crash.
func Tr(v int) int { println(Cur, v); return v }

// Y is the yield atom.
func Y(k int) int { println(Cur, -k); maybe(k); return k }

// B and S are atoms passing a bool / string through.
func B(k int, b bool) bool       { println(Cur, -k); maybe(k); return b }
func S(k int, s string) string { println(Cur, -k); maybe(k); return s }

type T struct{ N int }

func (t *T) PM(k int) int { t.N++; return Y(k) + t.N }
func (t T) VM(k int) int  { return Y(k) + t.N*2 }

// E promotes T's methods.
type E struct {
	T
	X int
}

type I interface {
	PM(int) int
	VM(int) int
}

func G[X any](x X, k int) X { Y(k); return x }

type Box[X any] struct{ V X }

func (b *Box[X]) Get(k int) X { Y(k); return b.V }
func (b Box[X]) Val(k int) X  { Y(k); return b.V }

var FV = func(k int) int { return Y(k) + 1 }

func Deep(d, k int) int {
	if d <= 0 {
		return Y(k)
	}
	return Deep(d-1, k) + d
}

// Apply calls f on k (a function value received as parameter).
func Apply(f func(int) int, k int) int { return f(k) }

func hidden(k int) int { return Y(k) + 3 }

var _ = hidden

// P is a silent perturbation point (kpngen): it may suspend the goroutine in the R build and prints nothing.
func P(k int) { maybe(k) }
