//go:build js

package y

import "github.com/gopherjs/gopherjs/js"

// Where prints the JavaScript stack at the call site (C19: stack frames must map back to Go lines).
func Where(id int) {
	println(Cur, "WHERE", id, js.Global.Get("Error").New().Get("stack").String())
}

// WhereV is Where for expression positions: it prints the stack and returns 0.
func WhereV(id int) int {
	println(Cur, "WHERE", id, js.Global.Get("Error").New().Get("stack").String())
	return 0
}
