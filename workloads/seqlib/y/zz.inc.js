// JavaScript shipped with the package: its mappings are offset by the place where the chunk is written, which in a
// minified build is in the middle of a line.
var $yIncFirst = function(v) { return v + 1; };
var $yIncSecond = function(v) {
  return $yIncFirst(v) * 2;
};
