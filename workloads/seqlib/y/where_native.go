//go:build !js

package y

func Where(id int) {}

func WhereV(id int) int { return 0 }
