//go:build !js

package y

func Where(id int) {}
