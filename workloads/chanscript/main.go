// chanscript: an interpreter for small channel/select/goroutine scenarios, compiled by the GopherJS tree
// under test and run inside simnode. The scenario is a JavaScript object handed over through the global
// simScenario (see DESIGN.md Appendix B):
//
//	{caps:[-1|0|1|2...], gs:[[op...]...], start:[g...], cbs:[cb...]}
//
// Every operation is bracketed by simLog(g, pc, "inv") / simLog(g, pc, "ret", result) and wrapped in recover,
// so run-time panics raised by channel operations are recorded in the goroutine that observed them.
package main

import (
	"runtime"

	"github.com/gopherjs/gopherjs/js"
)

var (
	chans []chan int
	gs    *js.Object
	done  chan int
)

func ch(i int) chan int {
	if i < 0 {
		return nil
	}
	return chans[i]
}

func logOp(g, pc int, phase string, res *js.Object) {
	js.Global.Call("simLog", g, pc, phase, res)
}

func obj() *js.Object { return js.Global.Get("Object").New() }

func sleep(ms int) {
	c := make(chan struct{})
	js.Global.Call("$setTimeout", js.InternalObject(func() { close(c) }), ms)
	<-c
}

func maybeYield(site int) {
	if js.Global.Call("simYield", site).Bool() {
		sleep(js.Global.Call("simDelay").Int())
	}
}

func panicText(r interface{}) string {
	if e, ok := r.(error); ok {
		return e.Error()
	}
	if s, ok := r.(string); ok {
		return "string:" + s
	}
	return "?"
}

func identFn(a int) int { return a + 1 }

func identFn2(a int, s string) string { return s }

func identFn3(a, b, c float64) (float64, bool) { return a + b + c, true }

var firsts [3]*js.Object

// doOp executes one operation; res is filled in as far as the operation got.
func doOp(g, pc int, op *js.Object) (res *js.Object) {
	res = obj()
	defer func() {
		if r := recover(); r != nil {
			res.Set("panic", panicText(r))
		}
	}()
	execOp(g, pc, op, res)
	return res
}

func execOp(g, pc int, op *js.Object, res *js.Object) {
	switch op.Get("k").String() {
	case "send":
		ch(op.Get("c").Int()) <- op.Get("v").Int()
	case "recv":
		v := <-ch(op.Get("c").Int())
		res.Set("v", v)
	case "recv2":
		v, ok := <-ch(op.Get("c").Int())
		res.Set("v", v)
		res.Set("ok", ok)
	case "close":
		close(ch(op.Get("c").Int()))
	case "len":
		res.Set("n", len(ch(op.Get("c").Int())))
	case "cap":
		res.Set("n", cap(ch(op.Get("c").Int())))
	case "gosched":
		runtime.Gosched()
	case "sleep":
		sleep(op.Get("ms").Int())
	case "yield":
		maybeYield(g*100 + pc)
	case "spawn":
		h := op.Get("g").Int()
		go run(h, gs.Index(h))
	case "range":
		n := 0
		for v := range ch(op.Get("c").Int()) {
			logOp(g, pc, "rv", js.Global.Get("Number").New(v))
			n++
		}
		res.Set("n", n)
	case "goexit":
		runtime.Goexit() // "deep" variant: below a frame that has deferred calls
	case "ident":
		// the same Go function externalises to the same JavaScript function
		js.Global.Set("identProbe", identFn)
		js.Global.Set("identProbe2", identFn2)
		js.Global.Set("identProbe3", identFn3)
		res.Set("same", js.Global.Get("identProbe") == firsts[0] && js.Global.Get("identProbe2") == firsts[1] && js.Global.Get("identProbe3") == firsts[2])
	case "ngo":
		res.Set("n", runtime.NumGoroutine())
	case "sel":
		r := op.Get("r")
		s := op.Get("s")
		r0, r1 := ch(r.Index(0).Int()), ch(r.Index(1).Int())
		s0, s1 := ch(s.Index(0).Index(0).Int()), ch(s.Index(1).Index(0).Int())
		v0, v1 := s.Index(0).Index(1).Int(), s.Index(1).Index(1).Int()
		if op.Get("d").Bool() {
			select {
			case v, ok := <-r0:
				res.Set("i", 0)
				res.Set("v", v)
				res.Set("ok", ok)
			case v, ok := <-r1:
				res.Set("i", 1)
				res.Set("v", v)
				res.Set("ok", ok)
			case s0 <- v0:
				res.Set("i", 2)
			case s1 <- v1:
				res.Set("i", 3)
			default:
				res.Set("i", -1)
			}
		} else {
			select {
			case v, ok := <-r0:
				res.Set("i", 0)
				res.Set("v", v)
				res.Set("ok", ok)
			case v, ok := <-r1:
				res.Set("i", 1)
				res.Set("v", v)
				res.Set("ok", ok)
			case s0 <- v0:
				res.Set("i", 2)
			case s1 <- v1:
				res.Set("i", 3)
			}
		}
	default:
		panic("chanscript: unknown op " + op.Get("k").String())
	}
}

func run(g int, ops *js.Object) {
	defer func() { done <- g }() // buffered: never blocks
	n := ops.Length()
	for pc := 0; pc < n; pc++ {
		op := ops.Index(pc)
		logOp(g, pc, "inv", nil)
		switch op.Get("k").String() {
		case "goexit":
			if !op.Get("d").Bool() {
				runtime.Goexit()
			}
		case "panic":
			if op.Get("x").Bool() {
				// a deferred call panics while runtime.Goexit unwinds the goroutine; nothing recovers it
				func() {
					defer func() { panic("boom") }()
					runtime.Goexit()
				}()
			}
			panic("boom")
		}
		if op.Get("x").Bool() {
			// the operation is performed by a deferred call that runs because of runtime.Goexit
			func() {
				defer func() {
					res := doOp(g, pc, op)
					logOp(g, pc, "ret", res)
				}()
				runtime.Goexit()
			}()
		}
		res := doOp(g, pc, op)
		logOp(g, pc, "ret", res)
	}
	logOp(g, n, "done", nil)
}

// objCallback is ONE exposed function registered under every echoobj callback name, so that the same
// externalised function is called several times. It takes a map and an interface value (the simulator hands
// both the SAME JavaScript object, mutated between calls) plus the callback index, and reports what it received.
func objCallback(m map[string]int, x interface{}, idx int) *js.Object {
	g := -(idx + 1)
	defer func() { done <- g }()
	res := obj()
	logOp(g, 0, "inv", nil)
	res.Set("a", len(m)*1000+m["n"])
	if xm, ok := x.(map[string]interface{}); ok {
		if f, ok := xm["n"].(float64); ok {
			res.Set("b", len(xm)*1000+int(f))
		}
	}
	m["poison"] = 1 // the callee may modify its own copy; the next call must not see it
	logOp(g, 0, "ret", res)
	return res
}

// callback bodies: invoked by the simulated event loop, outside any goroutine.
func makeCallback(idx int, cb *js.Object) func(a int, s string) *js.Object {
	return func(a int, s string) *js.Object {
		g := -(idx + 1)
		defer func() { done <- g }()
		res := obj()
		logOp(g, 0, "inv", nil)
		switch cb.Get("kind").String() {
		case "echo":
			res.Set("a", a*2+1)
			res.Set("s", s+"!")
		case "spawn":
			h := cb.Get("g").Int()
			go run(h, gs.Index(h))
		case "chanop":
			if cb.Get("deferred").Bool() {
				// the operation is performed by a deferred call while the callback is panicking
				defer func() { execOp(g, 0, cb.Get("op"), res) }()
				panic("cbfirst")
			}
			if cb.Get("recover").Bool() {
				res = doOp(g, 0, cb.Get("op"))
			} else {
				execOp(g, 0, cb.Get("op"), res)
			}
		}
		logOp(g, 0, "ret", res)
		return res
	}
}

func main() {
	sc := js.Global.Get("simScenario")
	caps := sc.Get("caps")
	for i := 0; i < caps.Length(); i++ {
		chans = append(chans, make(chan int, caps.Index(i).Int()))
	}
	gs = sc.Get("gs")
	cbs := sc.Get("cbs")
	ncb := 0
	if cbs != js.Undefined && cbs != nil {
		ncb = cbs.Length()
	}
	done = make(chan int, gs.Length()+ncb)
	if ncb > 0 {
		js.Global.Set("identFirst", identFn)
		js.Global.Set("identFirst2", identFn2)
		js.Global.Set("identFirst3", identFn3)
		firsts = [3]*js.Object{js.Global.Get("identFirst"), js.Global.Get("identFirst2"), js.Global.Get("identFirst3")}
		for i := 0; i < ncb; i++ {
			name := "cb" + js.Global.Get("String").Invoke(i).String()
			if cbs.Index(i).Get("kind").String() == "echoobj" {
				js.Global.Set(name, objCallback)
			} else {
				js.Global.Set(name, makeCallback(i, cbs.Index(i)))
			}
		}
	}
	start := sc.Get("start")
	for i := 0; i < start.Length(); i++ {
		h := start.Index(i).Int()
		go run(h, gs.Index(h))
	}
	run(0, gs.Index(0))
	for i := 0; i < gs.Length()+ncb; i++ {
		<-done
	}
	logOp(0, -1, "exit", nil)
}
