module chanscript

go 1.20
