// Curated C08 program: deferred calls that suspend while a panic is propagating through several frames, with the
// recovering deferred call one or two frames further out (the shape of finding F7), plus control scenarios.
package main

import "seqprog/y"

func leaf(k int) int {
	if k > 0 {
		panic(k)
	}
	return 1
}

// middle has a deferred call with a yield atom that does not recover.
func middle(k int) (r int) {
	defer func() {
		y.Tr(100 + y.Y(1))
	}()
	r = leaf(k)
	y.Tr(101)
	return r
}

// middle2 adds one more non-recovering frame with two deferred calls.
func middle2(k int) (r int) {
	defer y.Tr(200)
	defer func() { y.Tr(201 + y.Y(2)) }()
	r = middle(k) + 1
	y.Tr(202)
	return r
}

func outer(k int) (r int) {
	defer func() {
		if x := recover(); x != nil {
			r = -x.(int) - y.Y(3)
		}
	}()
	r = middle(k) + 5
	y.Tr(102) // must not run when leaf panicked
	return r
}

func outer2(k int) (r int) {
	defer y.Tr(300)
	defer func() {
		if x := recover(); x != nil {
			r = -10 * x.(int)
		}
		y.Tr(301 + y.Y(4))
	}()
	r = middle2(k) + 7
	y.Tr(302)
	return r
}

// same frame: the suspending deferred call and the recovering one belong to one function
func sameFrame(k int) (r int) {
	defer func() {
		if x := recover(); x != nil {
			r = 1000 + x.(int)
		}
	}()
	defer func() { y.Tr(400 + y.Y(5)) }()
	r = leaf(k)
	y.Tr(401)
	return r
}

func runScenario(k int, done chan int) {
	y.Cur = k
	defer func() {
		y.Cur = k
		if x := recover(); x != nil {
			println(k, "ESCAPED")
		}
		done <- k
	}()
	switch k {
	case 0:
		y.Tr(outer(7))
	case 1:
		y.Tr(outer(0))
	case 2:
		y.Tr(outer2(3))
	case 3:
		y.Tr(sameFrame(9))
	case 4:
		y.Tr(outer2(0))
	case 5:
		y.Tr(middle2(4)) // nobody recovers: caught by the runner
	}
	println(k, "FIN")
}
