//go:build multi

package main

func main() {
	done := make(chan int, 6)
	for k := 0; k < 6; k++ {
		go runScenario(k, done)
	}
	for k := 0; k < 6; k++ {
		<-done
	}
	println("END")
}
