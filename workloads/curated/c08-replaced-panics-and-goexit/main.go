// Curated C08 program: panics replaced by panics of deferred calls, recovered before or after the recovering
// deferred call suspends, with an older panic in flight further out, and panics raised by deferred calls while
// runtime.Goexit unwinds the goroutine (the shapes of the second C08 thorough run: F20, F21). Every y.Y atom is a
// possible suspension point; the tape decides which of them suspend.
package main

import (
	"runtime"

	"seqprog/y"
)

func pval(x interface{}) int {
	switch v := x.(type) {
	case int:
		return v
	case runtime.Error:
		return 11
	}
	return -1
}

func boom() int {
	var s []int
	return s[y.Y(90)] // index out of range: a run-time panic
}

// replaced in the same frame: D2 replaces the run-time panic, D1 recovers the replacing one.
func sameFrame() (r int) {
	defer func() { // D1
		y.Y(1)
		if x := recover(); x != nil {
			r = 100 + pval(x)
			y.Y(2)
		}
		y.Tr(10 + y.Y(3))
	}()
	defer func() { // D2
		y.Y(4)
		panic(8 + y.Y(5) - 5)
	}()
	return boom()
}

// replaced in a callee: nobody recovers in thrower, its deferred call replaces the panic.
func thrower() int {
	defer func() {
		y.Tr(20 + y.Y(6))
		panic(9)
	}()
	defer y.Tr(21)
	return boom()
}

func calleeFrame() (r int) {
	defer y.Tr(22)
	defer func() {
		if x := recover(); x != nil {
			r = 200 + pval(x)
			y.Tr(23 + y.Y(7))
		}
	}()
	r = thrower()
	y.Tr(24) // must not run
	return r
}

// an older panic is in flight in outerPanic while its deferred call runs calleeFrame/sameFrame, which recover their
// own panics and may suspend: the older panic must survive and reach the runner.
func outerPanic(which int) (r int) {
	defer y.Tr(30)
	defer func() {
		if which == 0 {
			y.Tr(sameFrame())
		} else {
			y.Tr(calleeFrame())
		}
		y.Tr(31 + y.Y(8))
	}()
	panic(55 + y.Y(9) - 9)
}

// three panics in a chain, the last one recovered two frames out
func chainInner() int {
	defer func() { y.Y(10); panic(3) }()
	defer func() { y.Tr(40 + y.Y(11)); panic(2) }()
	panic(1)
}

func chainMiddle() int {
	defer y.Tr(41 + y.Y(12) - 12)
	return chainInner() + 1
}

func chain() (r int) {
	defer func() {
		x := recover()
		y.Y(13)
		r = 300 + pval(x)
	}()
	return chainMiddle()
}

// the recovering deferred call has deferred calls of its own, which suspend
func nestedDefer() (r int) {
	defer func() {
		defer func() { y.Tr(50 + y.Y(14)) }()
		if x := recover(); x != nil {
			r = 400 + pval(x)
		}
		y.Y(15)
	}()
	defer func() { panic(6 + y.Y(16) - 16) }()
	return boom()
}

func withDefer(k int) {
	defer func() { y.Tr(60 + y.Y(k) - k) }()
}

func exiter() {
	defer y.Tr(61)
	y.Y(17)
	runtime.Goexit()
}

func panicsDuringGoexit() {
	defer func() {
		y.Y(18)
		panic(7)
	}()
	exiter()
	y.Tr(62) // must not run
}

// a deferred call panics while Goexit unwinds; an outer frame recovers that panic and goes on to call functions with
// deferred calls of their own, then panics again; Goexit continues afterwards (FIN is never printed).
func goexitRecovered() int {
	defer func() {
		if x := recover(); x != nil {
			y.Tr(63 + pval(x))
			withDefer(19)
			y.Tr(64 + y.Y(20) - 20)
			withDefer(21)
			panic(pval(x) + 1)
		}
	}()
	panicsDuringGoexit()
	y.Tr(65) // must not run
	return 1
}

func goexitPlain() int {
	defer func() {
		withDefer(22)
		y.Tr(66)
	}()
	exiter()
	return 2
}

// a deferred call of lateCaller calls recoverLate, which panics and recovers its own panic in a deferred call that may
// suspend before it calls recover: the pending panic belongs to recoverLate's frame, not to the first frame resumed
func recoverLate() (r int) {
	defer func() {
		y.Y(23)
		if x := recover(); x != nil {
			r = 500 + pval(x)
		} else {
			r = -1
		}
		y.Y(24)
	}()
	panic(4 + y.Y(25) - 25)
}

func lateCaller() (r int) {
	defer func() {
		r = recoverLate()
		y.Tr(70 + y.Y(26) - 26)
	}()
	return 0
}

// the same while lateCaller2 itself is panicking
func lateCaller2() (r int) {
	defer func() {
		x := recover()
		r = 600 + pval(x)
	}()
	defer func() {
		y.Tr(recoverLate())
	}()
	panic(33)
}

// a deferred call resumes and calls Goexit while a panic is in flight: the panic is gone for later deferred calls
func goexitAfterResume() int {
	defer func() {
		if x := recover(); x != nil {
			y.Tr(80 + pval(x))
		} else {
			y.Tr(81)
		}
	}()
	defer func() {
		y.Y(27)
		runtime.Goexit()
	}()
	panic(5)
}

func ng() int {
	if runtime.NumGoroutine() >= 2 { // main and this scenario's goroutine at least
		return 1
	}
	return 0
}

// a goroutine that called Goexit and is parked in a deferred call still counts
func goexitCounted() int {
	defer func() {
		y.Y(28)
		y.Tr(90 + ng())
		y.Y(29)
		y.Tr(90 + ng())
	}()
	exiter()
	return 3
}

// the callee panics and one of its deferred calls suspends; after the resumption a deferred call of the caller replaces
// the panic and another one recovers the replacing panic: the caller returns, it does not go on after the call
func innerPanics() int {
	defer func() {
		y.Y(30)
		y.Tr(95)
	}()
	panic(21)
}

func outerReplaces() (r int) {
	defer func() { r = 700 + pval(recover()) }()
	defer func() { panic(22 + y.Y(31) - 31) }()
	r = innerPanics()
	y.Tr(96) // must not run
	return 1000
}

func runScenario(k int, done chan int) {
	y.Cur = k
	defer func() {
		y.Cur = k
		if x := recover(); x != nil {
			println(k, "ESCAPED", pval(x))
		}
		done <- k
	}()
	switch k {
	case 0:
		y.Tr(sameFrame())
	case 1:
		y.Tr(calleeFrame())
	case 2:
		y.Tr(outerPanic(0))
	case 3:
		y.Tr(outerPanic(1))
	case 4:
		y.Tr(chain())
	case 5:
		y.Tr(nestedDefer())
	case 6:
		y.Tr(goexitRecovered())
	case 7:
		y.Tr(goexitPlain())
	case 8:
		y.Tr(lateCaller())
	case 9:
		y.Tr(lateCaller2())
	case 10:
		y.Tr(goexitAfterResume())
	case 11:
		y.Tr(goexitCounted())
	case 12:
		y.Tr(outerReplaces())
	}
	println(k, "FIN")
}
