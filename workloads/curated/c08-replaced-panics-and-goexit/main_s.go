//go:build !multi

package main

func main() {
	done := make(chan int, 12)
	for k := 0; k < 12; k++ {
		go runScenario(k, done)
		<-done
	}
	println("END")
}
