//go:build multi

package main

func main() {
	done := make(chan int, 8)
	for k := 0; k < 8; k++ {
		go runScenario(k, done)
	}
	for k := 0; k < 8; k++ {
		<-done
	}
	println("END")
}
