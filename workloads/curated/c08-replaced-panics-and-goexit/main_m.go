//go:build multi

package main

func main() {
	done := make(chan int, 13)
	for k := 0; k < 13; k++ {
		go runScenario(k, done)
	}
	for k := 0; k < 13; k++ {
		<-done
	}
	println("END")
}
