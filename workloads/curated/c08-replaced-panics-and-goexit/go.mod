module seqprog

go 1.20
