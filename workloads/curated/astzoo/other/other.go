// Package other exists to be imported in every way an import spec allows.
package other

const Answer = 42

var Counter int

func Bump() int { Counter++; return Counter }

type Shape interface {
	Area() int
}
