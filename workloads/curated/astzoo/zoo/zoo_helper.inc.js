$global.astzooInc = ($global.astzooInc || 0) + 1;
