//go:build !never

package zoo

import _ "unsafe"

// second file: declaration order across files matters for initialisation

var Late = early + 1

var early = func() int { return len(table) }()

func (p Pair[K, V]) Swap() Pair[K, V] { return p }

// A go:linkname directive that is NOT part of the function's doc comment (a blank line separates them): the
// directive is a free-floating comment of the file.

//go:linkname floating astzoo/zoo.target2

func floating(x int) int

func target2(x int) int { return x*5 + 2 }

func UseFloating() int { return floating(3) }
