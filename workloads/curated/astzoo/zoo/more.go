//go:build !never

package zoo

// second file: declaration order across files matters for initialisation

var Late = early + 1

var early = func() int { return len(table) }()

func (p Pair[K, V]) Swap() Pair[K, V] { return p }
