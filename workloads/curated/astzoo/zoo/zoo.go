// Package zoo contains one specimen of (nearly) every kind of syntax node, comment and directive, so that a
// round trip of its parsed files through the build cache has something to lose.
package zoo

import (
	"math"
	"unicode/utf8"
	_ "unsafe" // for go:linkname

	. "astzoo/other"
	oth "astzoo/other"
)

//go:linkname linked astzoo/zoo.target
func linked(x int) int

func target(x int) int { return x*3 + 1 }

// Enumerations with iota, typed and untyped, with skipped values and expressions.
const (
	A = iota * 10
	B
	_
	D
	E = 1 << iota
	F
)

type (
	// Celsius is a defined numeric type with methods.
	Celsius float64
	Pair[K comparable, V any] struct {
		Key K   `json:"key"`
		Val V   `json:"val,omitempty"`
		_   int // blank field
	}
	Tree struct {
		Left, Right *Tree
		Value       int
	}
	Visitor func(*Tree) bool
	alias       = Tree
	Stringer    interface{ String() string }
	Both        interface {
		Stringer
		Shape
	}
)

func (c Celsius) String() string { return "C" }
func (c Celsius) Area() int      { return int(c) }

func (t *Tree) Walk(v Visitor) {
	if t == nil {
		return
	}
	t.Left.Walk(v)
	if !v(t) {
		return
	}
	t.Right.Walk(v)
}

var (
	table = map[string][]int{"a": {1, 2, 3}, "b": nil, "c": {}}
	grid  = [...][2]int{{1, 2}, 2: {5, 6}}
	fn    = func(xs ...int) (sum int) {
		for _, x := range xs {
			sum += x
		}
		return
	}
	cplx       = complex(1, 2) * 3i
	raw        = `raw "string" \n with
newline`
	runes      = []rune{'a', '\n', '\x00', 'é', '⌘', '\''}
	_, ignored = fn(1, 2, 3), Answer
)

func init() { Counter += oth.Answer }

func init() {
	// a second init in the same file
	Bump()
}

/* Generic helpers */

func Map[T, U any](xs []T, f func(T) U) (out []U) {
	for _, x := range xs {
		out = append(out, f(x))
	}
	return
}

func Max[T ~int | ~float64](a, b T) T {
	if a > b {
		return a
	}
	return b
}

// Everything runs one of each statement kind.
func Everything(n int) (result int, err error) {
	defer func() {
		if r := recover(); r != nil {
			result = -1
		}
	}()
	var t *alias = &Tree{Value: n, Left: &Tree{Value: n - 1}, Right: &Tree{Value: n + 1}}
	count := 0
	t.Walk(func(x *Tree) bool { count += x.Value; return true })
	result += count

	ch := make(chan int, 3)
	done := make(chan struct{})
	go func(k int) {
		defer close(done)
		for i := 0; i < k; i++ {
			ch <- i
		}
		close(ch)
	}(3)
	<-done
loop:
	for {
		select {
		case v, ok := <-ch:
			if !ok {
				break loop
			}
			result += v
		default:
			break loop
		}
	}

	switch x := interface{}(Celsius(3)).(type) {
	case Both:
		result += x.Area()
	case nil:
		result--
	default:
		result -= 2
	}

	switch {
	case n > 100:
		result = 100
		fallthrough
	case n > 50:
		result++
	default:
	}

outer:
	for i := 0; i < 3; i++ {
		for j := range grid {
			if j == 1 {
				continue outer
			}
			if i == 2 {
				goto end
			}
			result += grid[j][i%2]
		}
	}
end:
	p := Pair[string, []int]{Key: "k", Val: table["a"]}
	result += len(p.Key) + len(p.Val[1:2:3]) + cap(p.Val[:0])
	result += Max(A, F) + int(Max[float64](1.5, 2.5)) + int(real(cplx)) + int(math.Abs(-2))
	result += utf8.RuneCountInString(raw) + len(runes) + linked(2) + fn() + fn([]int{1, 2}...)
	arr := [3]int{}
	ptr := &arr
	ptr[1]++
	(*ptr)[2] += 2
	result += arr[1] + arr[2]
	var sh Shape = Celsius(1)
	if c, ok := sh.(Celsius); ok && c != 0 {
		result += c.Area()
	} else if !ok {
		result = 0
	}
	f := (*Tree).Walk
	f(t, func(*Tree) bool { return false })
	result ^= 0x0f &^ 0x3
	result <<= 1
	result %= 1000
	return result, nil
}
