module astzoo

go 1.20
