package main

import "astzoo/zoo"

func main() {
	r, err := zoo.Everything(7)
	println(r, err == nil, zoo.Late, zoo.UseFloating())
	println("END")
}
