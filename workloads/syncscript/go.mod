module syncscript

go 1.20
