// syncscript: goroutines run operation lists on shared nosync objects and sync/atomic variables, with
// suspension points between operations and inside user callbacks (Once.Do, Map.Range, Pool.New). Compiled by
// the GopherJS tree under test, run inside simnode. Scenario: {gs:[[op...]...]}; op = {k, o, a:[...], cb:[op...], stop}.
// 64-bit operands and results travel as [hi, lo] pairs of 32-bit halves.
package main

import (
	"sync/atomic"
	"unsafe"

	"github.com/gopherjs/gopherjs/js"
	"github.com/gopherjs/gopherjs/nosync"
)

var (
	mus   [2]nosync.Mutex
	rws   [2]nosync.RWMutex
	wgs   [2]nosync.WaitGroup
	onces [2]nosync.Once
	maps  [2]nosync.Map
	pools [2]nosync.Pool

	i32s  [2]int32
	i64s  [2]int64
	u32s  [2]uint32
	u64s  [2]uint64
	uptrs [2]uintptr
	uns   [2]unsafe.Pointer

	ti32  [2]atomic.Int32
	ti64  [2]atomic.Int64
	tu32  [2]atomic.Uint32
	tu64  [2]atomic.Uint64
	tuptr [2]atomic.Uintptr
	tbool [2]atomic.Bool
	tptr  [2]atomic.Pointer[int]
	tval  [2]atomic.Value

	cells   [4]int // targets of Pointer[int] / unsafe.Pointer operations
	newSeq  int
	gs      *js.Object
	done    chan int
	poolNew [2]*js.Object // ops to run inside Pool.New, nil when the pool has no New
)

func logOp(g, pc int, phase string, res *js.Object) { js.Global.Call("simLog", g, pc, phase, res) }
func obj() *js.Object                                { return js.Global.Get("Object").New() }

func sleep(ms int) {
	c := make(chan struct{})
	js.Global.Call("$setTimeout", js.InternalObject(func() { close(c) }), ms)
	<-c
}

func maybeYield(site int) {
	if js.Global.Call("simYield", site).Bool() {
		sleep(js.Global.Call("simDelay").Int())
	}
}

func panicText(r interface{}) string {
	if e, ok := r.(error); ok {
		return e.Error()
	}
	if s, ok := r.(string); ok {
		return s
	}
	return "?"
}

func a32(op *js.Object, i int) int32   { return int32(op.Get("a").Index(i).Int()) }
func au32(op *js.Object, i int) uint32 { return uint32(op.Get("a").Index(i).Int64()) }
func a64(op *js.Object, i int) int64 {
	p := op.Get("a").Index(i)
	return int64(uint64(uint32(p.Index(0).Int64()))<<32 | uint64(uint32(p.Index(1).Int64())))
}
func au64(op *js.Object, i int) uint64 { return uint64(a64(op, i)) }
func set64(res *js.Object, name string, v uint64) {
	arr := js.Global.Get("Array").New()
	arr.SetIndex(0, uint32(v>>32))
	arr.SetIndex(1, uint32(v))
	res.Set(name, arr)
}
func cellPtr(i int) *int {
	if i < 0 {
		return nil
	}
	return &cells[i]
}
func cellIdx(p *int) int {
	for i := range cells {
		if p == &cells[i] {
			return i
		}
	}
	if p == nil {
		return -1
	}
	return -2
}
func unsafeIdx(p unsafe.Pointer) int {
	for i := range cells {
		if p == unsafe.Pointer(&cells[i]) {
			return i
		}
	}
	if p == nil {
		return -1
	}
	return -2
}

// anyArg decodes a tagged value for atomic.Value: ["i",n] int, ["s","x"] string, ["n"] nil
func anyArg(op *js.Object, i int) interface{} {
	p := op.Get("a").Index(i)
	switch p.Index(0).String() {
	case "i":
		return p.Index(1).Int()
	case "s":
		return p.Index(1).String()
	}
	return nil
}
func setAny(res *js.Object, name string, v interface{}) {
	arr := js.Global.Get("Array").New()
	switch x := v.(type) {
	case int:
		arr.SetIndex(0, "i")
		arr.SetIndex(1, x)
	case string:
		arr.SetIndex(0, "s")
		arr.SetIndex(1, x)
	case nil:
		arr.SetIndex(0, "n")
	default:
		arr.SetIndex(0, "?")
	}
	res.Set(name, arr)
}

func runNested(g, pc int, ops *js.Object) {
	if ops == nil || ops == js.Undefined {
		return
	}
	n := ops.Length()
	for j := 0; j < n; j++ {
		sub := (pc+1)*100 + j
		logOp(g, sub, "inv", nil)
		if ops.Index(j).Get("k").String() == "boom" {
			panic("boom") // the user callback panics: not recovered here, it propagates through Do / Range / Get
		}
		res := doOp(g, sub, ops.Index(j))
		logOp(g, sub, "ret", res)
	}
}

func doOp(g, pc int, op *js.Object) (res *js.Object) {
	res = obj()
	defer func() {
		if r := recover(); r != nil {
			res.Set("panic", panicText(r))
		}
	}()
	o := op.Get("o").Int()
	switch op.Get("k").String() {
	case "yield":
		maybeYield(g*1000 + pc)
	case "mu.lock":
		mus[o].Lock()
	case "mu.unlock":
		mus[o].Unlock()
	case "rw.lock":
		rws[o].Lock()
	case "rw.unlock":
		rws[o].Unlock()
	case "rw.rlock":
		rws[o].RLock()
	case "rw.runlock":
		rws[o].RUnlock()
	case "wg.add":
		wgs[o].Add(op.Get("a").Index(0).Int())
	case "wg.done":
		wgs[o].Done()
	case "wg.wait":
		wgs[o].Wait()
	case "once.do":
		onces[o].Do(func() {
			logOp(g, pc, "cb", nil)
			runNested(g, pc, op.Get("cb"))
			logOp(g, pc, "cbend", nil)
		})
	case "map.load":
		v, ok := maps[o].Load(op.Get("a").Index(0).Int())
		if ok {
			res.Set("v", v.(int))
		}
		res.Set("ok", ok)
	case "map.store":
		maps[o].Store(op.Get("a").Index(0).Int(), op.Get("a").Index(1).Int())
	case "map.loadorstore":
		v, loaded := maps[o].LoadOrStore(op.Get("a").Index(0).Int(), op.Get("a").Index(1).Int())
		res.Set("v", v.(int))
		res.Set("ok", loaded)
	case "map.delete":
		maps[o].Delete(op.Get("a").Index(0).Int())
	case "map.range":
		stop := op.Get("stop").Int()
		n := 0
		maps[o].Range(func(k, v interface{}) bool {
			kv := js.Global.Get("Array").New()
			kv.SetIndex(0, k.(int))
			kv.SetIndex(1, v.(int))
			logOp(g, pc, "cb", kv)
			n++
			runNested(g, pc, op.Get("cb"))
			return stop <= 0 || n < stop
		})
		res.Set("n", n)
	case "pool.put":
		pools[o].Put(op.Get("a").Index(0).Int())
	case "pool.putnil":
		pools[o].Put(nil)
	case "pool.get":
		cur := [2]int{g, pc}
		poolCaller[o] = cur
		x := pools[o].Get()
		if x == nil {
			res.Set("nil", true)
		} else {
			res.Set("v", x.(int))
		}

	case "add32":
		res.Set("v", atomic.AddInt32(&i32s[o], a32(op, 0)))
	case "load32":
		res.Set("v", atomic.LoadInt32(&i32s[o]))
	case "store32":
		atomic.StoreInt32(&i32s[o], a32(op, 0))
	case "swap32":
		res.Set("v", atomic.SwapInt32(&i32s[o], a32(op, 0)))
	case "cas32":
		res.Set("ok", atomic.CompareAndSwapInt32(&i32s[o], a32(op, 0), a32(op, 1)))
	case "addu32":
		res.Set("v", atomic.AddUint32(&u32s[o], au32(op, 0)))
	case "loadu32":
		res.Set("v", atomic.LoadUint32(&u32s[o]))
	case "storeu32":
		atomic.StoreUint32(&u32s[o], au32(op, 0))
	case "swapu32":
		res.Set("v", atomic.SwapUint32(&u32s[o], au32(op, 0)))
	case "casu32":
		res.Set("ok", atomic.CompareAndSwapUint32(&u32s[o], au32(op, 0), au32(op, 1)))
	case "adduptr":
		res.Set("v", uint32(atomic.AddUintptr(&uptrs[o], uintptr(au32(op, 0)))))
	case "loaduptr":
		res.Set("v", uint32(atomic.LoadUintptr(&uptrs[o])))
	case "storeuptr":
		atomic.StoreUintptr(&uptrs[o], uintptr(au32(op, 0)))
	case "swapuptr":
		res.Set("v", uint32(atomic.SwapUintptr(&uptrs[o], uintptr(au32(op, 0)))))
	case "casuptr":
		res.Set("ok", atomic.CompareAndSwapUintptr(&uptrs[o], uintptr(au32(op, 0)), uintptr(au32(op, 1))))
	case "add64":
		set64(res, "w", uint64(atomic.AddInt64(&i64s[o], a64(op, 0))))
	case "load64":
		set64(res, "w", uint64(atomic.LoadInt64(&i64s[o])))
	case "store64":
		atomic.StoreInt64(&i64s[o], a64(op, 0))
	case "swap64":
		set64(res, "w", uint64(atomic.SwapInt64(&i64s[o], a64(op, 0))))
	case "cas64":
		res.Set("ok", atomic.CompareAndSwapInt64(&i64s[o], a64(op, 0), a64(op, 1)))
	case "addu64":
		set64(res, "w", atomic.AddUint64(&u64s[o], au64(op, 0)))
	case "loadu64":
		set64(res, "w", atomic.LoadUint64(&u64s[o]))
	case "storeu64":
		atomic.StoreUint64(&u64s[o], au64(op, 0))
	case "swapu64":
		set64(res, "w", atomic.SwapUint64(&u64s[o], au64(op, 0)))
	case "casu64":
		res.Set("ok", atomic.CompareAndSwapUint64(&u64s[o], au64(op, 0), au64(op, 1)))
	case "loadp":
		res.Set("v", unsafeIdx(atomic.LoadPointer(&uns[o])))
	case "storep":
		atomic.StorePointer(&uns[o], unsafe.Pointer(cellPtr(op.Get("a").Index(0).Int())))
	case "swapp":
		res.Set("v", unsafeIdx(atomic.SwapPointer(&uns[o], unsafe.Pointer(cellPtr(op.Get("a").Index(0).Int())))))
	case "casp":
		res.Set("ok", atomic.CompareAndSwapPointer(&uns[o], unsafe.Pointer(cellPtr(op.Get("a").Index(0).Int())), unsafe.Pointer(cellPtr(op.Get("a").Index(1).Int()))))

	case "t.add32":
		res.Set("v", ti32[o].Add(a32(op, 0)))
	case "t.load32":
		res.Set("v", ti32[o].Load())
	case "t.store32":
		ti32[o].Store(a32(op, 0))
	case "t.swap32":
		res.Set("v", ti32[o].Swap(a32(op, 0)))
	case "t.cas32":
		res.Set("ok", ti32[o].CompareAndSwap(a32(op, 0), a32(op, 1)))
	case "t.addu32":
		res.Set("v", tu32[o].Add(au32(op, 0)))
	case "t.loadu32":
		res.Set("v", tu32[o].Load())
	case "t.storeu32":
		tu32[o].Store(au32(op, 0))
	case "t.swapu32":
		res.Set("v", tu32[o].Swap(au32(op, 0)))
	case "t.casu32":
		res.Set("ok", tu32[o].CompareAndSwap(au32(op, 0), au32(op, 1)))
	case "t.adduptr":
		res.Set("v", uint32(tuptr[o].Add(uintptr(au32(op, 0)))))
	case "t.loaduptr":
		res.Set("v", uint32(tuptr[o].Load()))
	case "t.storeuptr":
		tuptr[o].Store(uintptr(au32(op, 0)))
	case "t.swapuptr":
		res.Set("v", uint32(tuptr[o].Swap(uintptr(au32(op, 0)))))
	case "t.casuptr":
		res.Set("ok", tuptr[o].CompareAndSwap(uintptr(au32(op, 0)), uintptr(au32(op, 1))))
	case "t.add64":
		set64(res, "w", uint64(ti64[o].Add(a64(op, 0))))
	case "t.load64":
		set64(res, "w", uint64(ti64[o].Load()))
	case "t.store64":
		ti64[o].Store(a64(op, 0))
	case "t.swap64":
		set64(res, "w", uint64(ti64[o].Swap(a64(op, 0))))
	case "t.cas64":
		res.Set("ok", ti64[o].CompareAndSwap(a64(op, 0), a64(op, 1)))
	case "t.addu64":
		set64(res, "w", tu64[o].Add(au64(op, 0)))
	case "t.loadu64":
		set64(res, "w", tu64[o].Load())
	case "t.storeu64":
		tu64[o].Store(au64(op, 0))
	case "t.swapu64":
		set64(res, "w", tu64[o].Swap(au64(op, 0)))
	case "t.casu64":
		res.Set("ok", tu64[o].CompareAndSwap(au64(op, 0), au64(op, 1)))
	case "t.loadb":
		res.Set("ok", tbool[o].Load())
	case "t.storeb":
		tbool[o].Store(op.Get("a").Index(0).Bool())
	case "t.swapb":
		res.Set("ok", tbool[o].Swap(op.Get("a").Index(0).Bool()))
	case "t.casb":
		res.Set("ok", tbool[o].CompareAndSwap(op.Get("a").Index(0).Bool(), op.Get("a").Index(1).Bool()))
	case "t.loadp":
		res.Set("v", cellIdx(tptr[o].Load()))
	case "t.storep":
		tptr[o].Store(cellPtr(op.Get("a").Index(0).Int()))
	case "t.swapp":
		res.Set("v", cellIdx(tptr[o].Swap(cellPtr(op.Get("a").Index(0).Int()))))
	case "t.casp":
		res.Set("ok", tptr[o].CompareAndSwap(cellPtr(op.Get("a").Index(0).Int()), cellPtr(op.Get("a").Index(1).Int())))
	case "v.load":
		setAny(res, "x", tval[o].Load())
	case "v.store":
		tval[o].Store(anyArg(op, 0))
	case "v.swap":
		setAny(res, "x", tval[o].Swap(anyArg(op, 0)))
	case "v.cas":
		res.Set("ok", tval[o].CompareAndSwap(anyArg(op, 0), anyArg(op, 1)))
	default:
		panic("syncscript: unknown op " + op.Get("k").String())
	}
	return res
}

var poolCaller [2][2]int

func run(g int, ops *js.Object) {
	defer func() { done <- g }()
	n := ops.Length()
	for pc := 0; pc < n; pc++ {
		logOp(g, pc, "inv", nil)
		res := doOp(g, pc, ops.Index(pc))
		logOp(g, pc, "ret", res)
	}
	logOp(g, n, "done", nil)
}

func main() {
	sc := js.Global.Get("simScenario")
	gs = sc.Get("gs")
	pn := sc.Get("poolNew")
	for i := 0; i < 2; i++ {
		i := i
		ops := pn.Index(i)
		if ops != nil && ops != js.Undefined {
			pools[i].New = func() interface{} {
				c := poolCaller[i]
				newSeq++
				id := 100000 + newSeq
				logOp(c[0], c[1], "cb", js.Global.Get("Number").New(id))
				runNested(c[0], c[1], ops)
				return id
			}
		}
	}
	done = make(chan int, gs.Length())
	for g := 1; g < gs.Length(); g++ {
		go run(g, gs.Index(g))
	}
	run(0, gs.Index(0))
	for g := 0; g < gs.Length(); g++ {
		<-done
	}
	logOp(0, -1, "exit", nil)
}
