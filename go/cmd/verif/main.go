// verif: entry point of the verification machinery.
//
//	verif check <ID> quick|thorough
//	verif replay <file>
//	verif selftest
package main

import (
	"fmt"
	"os"
	"path/filepath"
	"runtime"
	"strconv"
	"time"

	"verif/internal/c02"
	"verif/internal/c03b"
	"verif/internal/c08"
	"verif/internal/c10"
	"verif/internal/c17"
	"verif/internal/c19"
	"verif/internal/c20"
	"verif/internal/chancheck"
	"verif/internal/evidence"
	"verif/internal/jbuild"
	"verif/internal/progeng"
	"verif/internal/synccheck"
)

func seed() int64 {
	if s := os.Getenv("VERIF_SEED"); s != "" {
		if v, err := strconv.ParseInt(s, 10, 64); err == nil {
			return v
		}
	}
	return 1
}

func workers() int {
	if s := os.Getenv("VERIF_WORKERS"); s != "" {
		if v, err := strconv.Atoi(s); err == nil && v > 0 {
			return v
		}
	}
	n := runtime.NumCPU()
	if n > 16 {
		n = 16
	}
	return n
}

func main() {
	if len(os.Args) < 2 {
		usage()
	}
	switch os.Args[1] {
	case "check":
		if len(os.Args) < 4 {
			usage()
		}
		os.Exit(check(os.Args[2], os.Args[3]))
	case "digest":
		// verif digest <ID> <cases> <tapes>: determinism probe (see ./check selftest)
		n, _ := strconv.Atoi(os.Args[3])
		k, _ := strconv.Atoi(os.Args[4])
		var d string
		var err error
		switch os.Args[2] {
		case "C03":
			d, err = chancheck.Digest(chancheck.Options{Property: "C03", Seed: seed(), Workers: workers(), MaxStates: 200000}, n, k)
		case "C11":
			d, err = chancheck.Digest(chancheck.Options{Property: "C11", Seed: seed(), Workers: workers(), MaxStates: 200000, Callbacks: true}, n, k)
		case "C13":
			d, err = synccheck.Digest(seed(), workers(), n, k)
		default:
			err = fmt.Errorf("no digest for %s", os.Args[2])
		}
		if err != nil {
			fmt.Fprintln(os.Stderr, err)
			os.Exit(2)
		}
		fmt.Println(d)
	case "gen":
		// verif gen <ID> <case index>: print the generated case (debugging aid)
		i, _ := strconv.Atoi(os.Args[3])
		switch os.Args[2] {
		case "C13":
			fmt.Println(string(synccheck.Spec("quick", seed(), 1).Generate(seed(), i).JSON()))
		case "C02", "C08":
			// verif gen C02 <i> <dir>: write the files of generated program i into dir
			sp := c02.Spec("quick", seed(), 1)
			if os.Args[2] == "C08" {
				sp = c08.Spec("quick", seed(), 1)
			}
			for name, content := range sp.Generate(seed(), i).Files {
				os.MkdirAll(os.Args[4], 0o755)
				os.WriteFile(filepath.Join(os.Args[4], name), []byte(content), 0o644)
			}
		}
	case "replay":
		if len(os.Args) < 3 {
			usage()
		}
		os.Setenv("VERIF_REPLAY_PATH", os.Args[2])
		rp, err := evidence.ReadReplay(os.Args[2])
		if err != nil {
			fmt.Fprintln(os.Stderr, err)
			os.Exit(2)
		}
		os.Exit(replay(rp))
	default:
		usage()
	}
}

func usage() {
	fmt.Fprintln(os.Stderr, "usage: verif check <ID> quick|thorough | verif replay <file>")
	os.Exit(2)
}

func check(id, tier string) int {
	fmt.Printf("VERIF_SEED=%d property=%s tier=%s workers=%d\n", seed(), id, tier, workers())
	quick := tier != "thorough"
	switch id {
	case "C03":
		opt := chancheck.Options{Property: "C03", Tier: tier, Seed: seed(), Workers: workers(), MaxStates: 200000, Curated: chancheck.Classics()}
		if quick {
			opt.Cases, opt.RunsPerCase, opt.Budget = 3000, 8, 4*time.Minute
		} else {
			opt.Cases, opt.RunsPerCase, opt.Budget = 150000, 12, 60*time.Minute
		}
		codeA, evA := chancheck.RunCollect(opt)
		if evA == nil {
			return 2
		}
		lopt := opt
		if quick {
			lopt.Cases, lopt.RunsPerCase, lopt.Budget = 800, 6, 2*time.Minute
		} else {
			lopt.Cases, lopt.RunsPerCase, lopt.Budget = 60000, 10, 40*time.Minute
		}
		codeL, evL := chancheck.RunLargeCollect(lopt)
		if evL == nil {
			return 2
		}
		evA.Coverage["evaluations"] = evA.Coverage["evaluations"].(int) + evL.Coverage["evaluations"].(int)
		evA.Coverage["distinct_nontrivial"] = evA.Coverage["distinct_nontrivial"].(int) + evL.Coverage["distinct_nontrivial"].(int)
		evA.Coverage["workload_A_large"] = map[string]any{"cases": evL.Coverage["cases"], "rule": evL.Coverage["rule"], "distinct_interleavings": evL.Coverage["distinct_interleavings"], "counters": evL.Coverage["counters"], "samples": evL.Coverage["samples"]}
		evA.Violations += evL.Violations
		evA.WallS += evL.WallS
		if codeL == 1 {
			codeA = 1
		}
		codeB, evB := progeng.RunCollect(c03b.Spec(tier, seed(), workers()))
		if evB == nil {
			return 2
		}
		evA.Coverage["evaluations"] = evA.Coverage["evaluations"].(int) + evB.Coverage["evaluations"].(int)
		evA.Coverage["distinct_nontrivial"] = evA.Coverage["distinct_nontrivial"].(int) + evB.Coverage["distinct_nontrivial"].(int)
		evA.Coverage["rule"] = "workload A: " + evA.Coverage["rule"].(string) + "; " + evB.Coverage["rule"].(string)
		evA.Coverage["workload_B"] = map[string]any{"programs": evB.Coverage["programs"], "distinct_schedules": evB.Coverage["distinct_schedules"], "counters": evB.Coverage["counters"], "samples": evB.Coverage["samples"]}
		evA.Violations += evB.Violations
		evA.WallS += evB.WallS
		if err := evA.Write(jbuild.VerifDir()); err != nil {
			fmt.Fprintln(os.Stderr, err)
			return 2
		}
		if codeA == 1 || codeB == 1 {
			return 1
		}
		return 0
	case "C11":
		opt := chancheck.Options{Property: "C11", Tier: tier, Seed: seed(), Workers: workers(), MaxStates: 200000, Callbacks: true, Curated: chancheck.CallbackClassics()}
		if quick {
			opt.Cases, opt.RunsPerCase, opt.Budget = 2500, 8, 4*time.Minute
		} else {
			opt.Cases, opt.RunsPerCase, opt.Budget = 100000, 12, 60*time.Minute
		}
		return chancheck.Run(opt)
	}
	switch id {
	case "C13":
		return synccheck.Run(tier, seed(), workers())
	case "C02":
		return c02.Run(tier, seed(), workers())
	case "C08":
		return c08.Run(tier, seed(), workers())
	case "C10":
		return c10.Run(tier, seed(), workers())
	case "C20":
		return c20.Run(tier, seed(), workers())
	case "C19":
		return c19.Run(tier, seed(), workers())
	case "C17":
		return c17.Run(tier, seed(), workers())
	}
	fmt.Fprintf(os.Stderr, "unknown property %q\n", id)
	return 2
}

func replay(rp *evidence.Replay) int {
	switch rp.Kind {
	case "program:C02":
		return c02.Replay(rp)
	case "program:C03":
		return progeng.Replay(c03b.Spec("quick", rp.Seed, 1), rp)
	case "program:C08":
		return c08.Replay(rp)
	case "program:C10":
		return c10.Replay(rp)
	case "govl:C20":
		return c20.Replay(rp)
	case "govl:C17", "c17control":
		return c17.Replay(rp)
	case "govl:C19", "c19corpus":
		return c19.Replay(rp)
	case "chanscript":
		return chancheck.Replay(rp)
	case "chanscript-large":
		return chancheck.ReplayLarge(rp)
	case "syncscript":
		return synccheck.Replay(rp)
	}
	fmt.Fprintf(os.Stderr, "unknown replay kind %q\n", rp.Kind)
	return 2
}
