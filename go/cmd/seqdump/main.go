// seqdump writes a generated program into a directory (debugging aid): seqdump <dir> <seed> <index> [clean] [c08]
package main

import (
	"fmt"
	"os"
	"path/filepath"

	"verif/internal/rng"
	"verif/internal/seqgen"
)

func main() {
	o := seqgen.Opts{Funcs: 4, Stmts: 10, Depth: 3, Goroutine: true}
	for _, a := range os.Args[4:] {
		switch a {
		case "clean":
			o.Clean = true
		case "c08":
			o.Scenarios, o.Unwind, o.Goexit, o.Native, o.Goroutine = true, true, true, true, false
		}
	}
	p := seqgen.Generate(rng.New(os.Args[2], os.Args[3]), o)
	for name, c := range p.Files {
		os.WriteFile(filepath.Join(os.Args[1], name), []byte(c), 0o644)
	}
	fmt.Fprintln(os.Stderr, p.Atoms, "atoms")
}
