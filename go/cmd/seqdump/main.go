// seqdump prints a generated program (debugging aid): seqdump <seed> <index> [clean]
package main

import (
	"fmt"
	"os"

	"verif/internal/rng"
	"verif/internal/seqgen"
)

func main() {
	o := seqgen.Opts{Funcs: 4, Stmts: 10, Depth: 3, Clean: len(os.Args) > 3, Goroutine: true}
	p := seqgen.Generate(rng.New(os.Args[1], os.Args[2]), o)
	fmt.Print(p.Files["main.go"])
	fmt.Fprintln(os.Stderr, p.Atoms, "atoms")
}
