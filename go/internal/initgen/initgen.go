// Package initgen generates multi-package programs that exercise package linking and initialisation order
// (C10): import DAGs with diamonds, several files per package, package-level variables whose initialisers
// depend on each other across files (directly and through functions), several init functions per file,
// initialisers and init functions containing yield atoms, goroutines started from init that hand results
// back over channels. Every initialiser / init prints a trace line through the y helper package.
package initgen

import (
	"fmt"
	"sort"
	"strings"

	"verif/internal/rng"
)

type Opts struct {
	MaxPkgs  int
	MaxFiles int
	MaxVars  int
}

type Program struct {
	Files    map[string]string
	Features map[string]int
	Atoms    int
	// FileIDs maps the identifying trace value printed by the first init of a file to "pkgdir/file.go".
	FileIDs map[int]string
	Pkgs    []string // package directories ("" is main), in generation order
	// AtomRange[k] = [first, last] atom id used inside package k; Imports[k] = packages k actually imports
	AtomRange [][2]int
	Imports   [][]int
}

var namePool = []string{"a", "b", "c", "m", "n", "z", "x1", "x2", "k_test_helper", "zz", "Ab", "B0"}

type entity struct {
	name  string
	rank  int
	file  int
	isVar bool
	expr  string
}

type gen struct {
	r    *rng.R
	atom int
	feat map[string]int
}

func (g *gen) next() int  { g.atom++; return g.atom }
func (g *gen) f(n string) { g.feat[n]++ }

// Generate draws one program.
func Generate(r *rng.R, o Opts) *Program {
	g := &gen{r: r, feat: map[string]int{}}
	p := &Program{Files: map[string]string{"go.mod": "module seqprog\n\ngo 1.20\n"}, FileIDs: map[int]string{}}
	npk := 1 + r.Intn(o.MaxPkgs)
	type pkgInfo struct {
		name    string
		imports []int
		exports []string // exported var / func call expressions usable by importers (already with package qualifier)
	}
	var pkgs []pkgInfo
	for pi := 0; pi <= npk; pi++ {
		isMain := pi == npk
		firstAtom := g.atom + 1
		info := pkgInfo{name: fmt.Sprintf("p%d", pi)}
		dir := info.name + "/"
		pkgName := info.name
		if isMain {
			dir, pkgName = "", "main"
			info.name = "main"
		}
		// imports: a subset of earlier packages (diamonds arise naturally); main imports the last package at least
		for pj := 0; pj < pi; pj++ {
			if r.Chance(1, 2) || (isMain && pj == npk-1) {
				info.imports = append(info.imports, pj)
			}
		}
		if len(info.imports) > 1 {
			g.f("imports:several")
		}
		nfiles := 1 + r.Intn(o.MaxFiles)
		perm := r.Perm(len(namePool))
		var fnames []string
		for i := 0; i < nfiles; i++ {
			fnames = append(fnames, namePool[perm[i]]+".go")
		}
		if nfiles > 1 {
			g.f("files:several")
		}
		// entities in rank order; an entity refers only to lower-ranked ones (no initialisation cycles)
		nent := 2 + r.Intn(o.MaxVars)
		var ents []entity
		usedImport := map[int]int{} // import -> file that must import it
		for k := 0; k < nent; k++ {
			e := entity{rank: k, file: r.Intn(nfiles), isVar: r.Chance(3, 4)}
			if e.isVar {
				e.name = fmt.Sprintf("V%d", k)
			} else {
				e.name = fmt.Sprintf("F%d", k)
			}
			var terms []string
			id := g.next()
			terms = append(terms, fmt.Sprintf("y.Y(%d)", id))
			for _, lower := range ents {
				if r.Chance(1, 3) {
					if lower.isVar {
						terms = append(terms, lower.name)
						if lower.file != e.file {
							g.f("dep:cross-file-var")
						}
					} else {
						terms = append(terms, lower.name+"()")
						g.f("dep:through-function")
					}
				}
			}
			for _, pj := range info.imports {
				if r.Chance(1, 3) && len(pkgs[pj].exports) > 0 {
					terms = append(terms, pkgs[pj].exports[r.Intn(len(pkgs[pj].exports))])
					if _, ok := usedImport[pj]; !ok || true {
						usedImport[pj*100+e.file] = 1
					}
					g.f("dep:imported")
				}
			}
			if e.isVar && r.Chance(1, 6) {
				// multi-value initialiser: one call initialises two variables (the second is a helper name)
				g.f("init:multi-value")
				e.expr = "MULTI:" + strings.Join(terms, " + ")
			} else if e.isVar && r.Chance(1, 5) {
				// initialiser that starts a goroutine and waits for its result
				g.f("init:goroutine-in-initialiser")
				e.expr = fmt.Sprintf("spawn%d(%s)", k, strings.Join(terms, "+"))
			} else {
				e.expr = "(" + strings.Join(terms, " + ") + ") % 9973"
			}
			ents = append(ents, e)
			qual := info.name + "."
			if e.isVar {
				// only variables are offered to importers: a function called from another package's initialiser
				// would print its atoms in the middle of that package's initialisation
				info.exports = append(info.exports, qual+e.name)
			}
		}
		// declaration positions: shuffle entities inside each file so that dependencies point forwards and backwards
		order := r.Perm(len(ents))
		fileBodies := make([][]string, nfiles)
		fileImports := make([]map[int]bool, nfiles)
		for i := range fileImports {
			fileImports[i] = map[int]bool{}
		}
		for key := range usedImport {
			fileImports[key%100][key/100] = true
		}
		for _, oi := range order {
			e := ents[oi]
			var decl string
			if e.isVar && strings.HasPrefix(e.expr, "MULTI:") {
				decl = fmt.Sprintf("var %s, aux%d = pair%d(%s)\n\nfunc pair%d(v int) (int, int) { return v %% 9973, y.Y(%d) }\n\nvar _ = y.Tr(aux%d)", e.name, e.rank, e.rank, strings.TrimPrefix(e.expr, "MULTI:"), e.rank, g.next(), e.rank)
			} else if e.isVar {
				decl = fmt.Sprintf("var %s = %s", e.name, e.expr)
				if strings.HasPrefix(e.expr, "spawn") {
					decl += fmt.Sprintf("\n\nfunc spawn%d(v int) int {\n\tc := make(chan int)\n\tgo func() { c <- v + y.Y(%d) }()\n\treturn <-c %% 9973\n}", e.rank, g.next())
				}
			} else {
				decl = fmt.Sprintf("func %s() int { return %s }", e.name, e.expr)
			}
			fileBodies[e.file] = append(fileBodies[e.file], decl)
		}
		if r.Chance(1, 3) {
			// a variable nobody reads whose initialiser's only call goes through a value of a named function type:
			// the initialiser has an effect all the same and must run, in its place
			g.f("init:unused-var-called-through-named-func-type")
			fi := r.Intn(nfiles)
			fileBodies[fi] = append(fileBodies[fi], fmt.Sprintf("type nf func(int) int\n\nvar nfv nf = y.Y\n\nvar unused = nfv(%d)", g.next()))
		}
		for fi := 0; fi < nfiles; fi++ {
			var b strings.Builder
			fmt.Fprintf(&b, "package %s\n\nimport (\n\t\"seqprog/y\"\n", pkgName)
			var imps []int
			for pj := range fileImports[fi] {
				imps = append(imps, pj)
			}
			sort.Ints(imps)
			for _, pj := range imps {
				fmt.Fprintf(&b, "\t\"seqprog/p%d\"\n", pj)
			}
			b.WriteString(")\n\n")
			fid := 1000000 + pi*100 + fi
			p.FileIDs[fid] = dir + fnames[fi]
			// identifying init first
			fmt.Fprintf(&b, "func init() { y.Tr(%d) }\n\n", fid)
			ninit := r.Intn(3)
			pos := 0
			for _, d := range fileBodies[fi] {
				b.WriteString(d + "\n\n")
				if pos < ninit && r.Bool() {
					pos++
					g.initFunc(&b, ents, fi)
				}
			}
			for ; pos < ninit; pos++ {
				g.initFunc(&b, ents, fi)
			}
			if isMain && fi == 0 {
				b.WriteString("func main() {\n")
				for _, e := range ents {
					if e.isVar {
						fmt.Fprintf(&b, "\ty.Tr(%s)\n", e.name)
					}
				}
				b.WriteString("\tprintln(\"END\")\n}\n")
			}
			p.Files[dir+fnames[fi]] = b.String()
		}
		if !isMain {
			p.Files[dir+"stub.s"] = "//go:build !js\n"
		}
		pkgs = append(pkgs, info)
		p.Pkgs = append(p.Pkgs, dir)
		p.AtomRange = append(p.AtomRange, [2]int{firstAtom, g.atom})
		impSet := map[int]bool{}
		for fi := range fileImports {
			for pj := range fileImports[fi] {
				impSet[pj] = true
			}
		}
		var imps []int
		for pj := range impSet {
			imps = append(imps, pj)
		}
		sort.Ints(imps)
		p.Imports = append(p.Imports, imps)
	}
	p.Features = g.feat
	p.Atoms = g.atom
	return p
}

func (g *gen) initFunc(b *strings.Builder, ents []entity, file int) {
	g.f("init:function")
	fmt.Fprintf(b, "func init() {\n")
	switch g.r.Intn(4) {
	case 0:
		fmt.Fprintf(b, "\ty.Tr(y.Y(%d) + 5)\n", g.next())
	case 1:
		// modifies a variable of the package after all initialisers ran
		var vars []string
		for _, e := range ents {
			if e.isVar {
				vars = append(vars, e.name)
			}
		}
		if len(vars) > 0 {
			v := vars[g.r.Intn(len(vars))]
			fmt.Fprintf(b, "\t%s = (%s*3 + y.Y(%d)) %% 9973\n\ty.Tr(%s)\n", v, v, g.next(), v)
			g.f("init:modifies-var")
		} else {
			fmt.Fprintf(b, "\ty.Tr(%d)\n", g.r.Intn(100))
		}
	case 2:
		g.f("init:goroutine-handing-back")
		fmt.Fprintf(b, "\tc := make(chan int)\n\tgo func() { c <- y.Y(%d) * 2 }()\n\ty.Tr(<-c + y.Y(%d))\n", g.next(), g.next())
	default:
		g.f("init:loop-of-atoms")
		fmt.Fprintf(b, "\tfor i := 0; i < 3; i++ {\n\t\ty.Tr(i + y.Y(%d))\n\t}\n", g.next())
	}
	b.WriteString("}\n\n")
}

func (p *Program) FeatureList() []string {
	var l []string
	for k := range p.Features {
		l = append(l, k)
	}
	sort.Strings(l)
	return l
}
