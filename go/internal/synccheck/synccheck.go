// Package synccheck is the C13 check (concurrency facet): nosync and sync/atomic under the cooperative
// scheduler, judged by the sequential reference state machines of package syncmodel.
package synccheck

import (
	"encoding/json"
	"sort"
	"time"

	"verif/internal/evidence"
	"verif/internal/known"
	"verif/internal/rng"
	"verif/internal/scripteng"
	"verif/internal/simpool"
	"verif/internal/syncmodel"
)

type syncCase struct{ sc *syncmodel.Scenario }

func (c *syncCase) JSON() json.RawMessage             { b, _ := json.Marshal(c.sc); return b }
func (c *syncCase) Callbacks() []simpool.CallbackSpec { return nil }
func (c *syncCase) Judge(res *simpool.Result) *scripteng.Verdict {
	v, _ := syncmodel.Check(c.sc, res)
	if v == nil {
		return nil
	}
	return &scripteng.Verdict{Class: v.Class, Message: v.Message, Digest: v.Message}
}
func (c *syncCase) Candidates() []scripteng.Case {
	var out []scripteng.Case
	for _, sc := range syncmodel.Candidates(c.sc) {
		out = append(out, &syncCase{sc})
	}
	return out
}
func (c *syncCase) Reach() []string { l := c.sc.Features(); sort.Strings(l); return l }
func (c *syncCase) Sample(res *simpool.Result) any {
	_, probes := syncmodel.Check(c.sc, res)
	return map[string]any{"scenario": c.sc, "history_records": len(res.Hist), "probes": probes, "tape": res.Tape}
}
func (c *syncCase) Probes(res *simpool.Result) map[string]int {
	_, probes := syncmodel.Check(c.sc, res)
	return probes
}
func (c *syncCase) ModelSize() (int, int)  { return 0, 0 }
func (c *syncCase) SimCfg() map[string]any { return nil }
func (c *syncCase) KnownFinding(kf *known.File, property string, v *scripteng.Verdict) string {
	return kf.MatchSync(property, c.sc, v.Class, v.Message)
}

func Spec(tier string, seed int64, workers int) scripteng.Spec {
	sp := scripteng.Spec{Property: "C13", Tier: tier, Seed: seed, Workload: "syncscript", ReplayKind: "syncscript", Workers: workers,
		Rule: "one evaluation = one simulated execution of a syncscript scenario (goroutines running operation lists on shared nosync objects and sync/atomic variables, with suspension points between operations and inside Once.Do / Map.Range / Pool.New callbacks) under one choice tape; " +
			"distinct = distinct (scenario, global order of invoke/return events); non-trivial = some operation's return is not adjacent to its invoke (a callback suspended, so operations of different goroutines overlapped)",
		Real: []string{"gopherjs compiler built from /repo working tree", "nosync package", "sync/atomic natives (function and typed forms)", "prelude scheduler", "syncscript compiled by that compiler"},
		Stub: []string{"Node event loop and timers (simnode)", "Date.now", "Math.random", "process.exit", "console"},
		Assumptions: []string{
			"reference state machines encode the documented contracts of sync / sync/atomic (contended = would block or is a fatal error in sync => must panic, object unchanged)",
			"math, math/bits and unicode overrides are pure functions of their arguments and are not decided by this check",
			"sync.Pool may drop items, so Get returning New()/nil with items present is accepted (counted as a probe)",
		},
	}
	if tier == "thorough" {
		sp.Cases, sp.RunsPerCase, sp.Budget = 120000, 12, 60*time.Minute
	} else {
		sp.Cases, sp.RunsPerCase, sp.Budget = 4000, 8, 4*time.Minute
	}
	sp.Generate = func(seed int64, i int) scripteng.Case {
		gc := syncmodel.NewGenConfig(rng.New(seed, "C13", "swarm", i/25))
		return &syncCase{syncmodel.Generate(rng.New(seed, "C13", "case", i), &gc)}
	}
	sp.Decode = func(raw json.RawMessage) (scripteng.Case, error) {
		var sc syncmodel.Scenario
		if err := json.Unmarshal(raw, &sc); err != nil {
			return nil, err
		}
		sc.Normalise()
		return &syncCase{&sc}, nil
	}
	return sp
}

func Run(tier string, seed int64, workers int) int { return scripteng.Run(Spec(tier, seed, workers)) }

func Replay(rp *evidence.Replay) int { return scripteng.Replay(Spec("quick", rp.Seed, 1), rp) }

func Digest(seed int64, workers, n, k int) (string, error) {
	return scripteng.Digest(Spec("quick", seed, workers), n, k)
}
