// Package c03b is C03 workload B: generated deterministic-by-construction concurrent programs (kpngen) compiled
// by the tree's compiler and run under seeded schedules (suspensions at perturbation points, time-slice breaks,
// timer order and lateness); per-process logs must equal the natively built program's for every tape.
package c03b

import (
	"fmt"
	"time"

	"verif/internal/kpngen"
	"verif/internal/progeng"
	"verif/internal/rng"
)

func diff(a, b []string) string {
	n := len(a)
	if len(b) < n {
		n = len(b)
	}
	for i := 0; i < n; i++ {
		if a[i] != b[i] {
			lo := i - 3
			if lo < 0 {
				lo = 0
			}
			return fmt.Sprintf("line %d: %q vs %q (context %v | %v)", i, a[i], b[i], a[lo:min(i+3, len(a))], b[lo:min(i+3, len(b))])
		}
	}
	if len(a) != len(b) {
		return fmt.Sprintf("one output is a prefix of the other (%d vs %d lines)", len(a), len(b))
	}
	return ""
}

func Judge(p *progeng.Prog, o *progeng.Obs) *progeng.Verdict {
	nat := o.Native
	if o.NativeCode != 0 || len(nat) == 0 || nat[len(nat)-1] != "END" {
		return &progeng.Verdict{Class: "generator-native-failure", Message: fmt.Sprintf("native reference exited with %d: %v", o.NativeCode, nat)}
	}
	for k, r := range o.Runs["R"] {
		if r.End != "drained" {
			msg := fmt.Sprintf("the program ended with %q under a schedule with %d suspensions (tail %v); natively it terminates", r.End, r.Fired["suspensions"], tail(r.Out))
			return &progeng.Verdict{Class: "abnormal-end", Message: msg, Digest: r.End, Variant: "R", Run: k}
		}
		if d := diff(nat, r.Out); d != "" {
			return &progeng.Verdict{Class: "schedule-dependent-result", Message: fmt.Sprintf("per-process logs differ from the native program under a schedule with %d suspensions: %s", r.Fired["suspensions"], d), Digest: d, Variant: "R", Run: k}
		}
	}
	return nil
}

func tail(l []string) []string {
	if len(l) > 4 {
		return l[len(l)-4:]
	}
	return l
}

func Spec(tier string, seed int64, workers int) progeng.Spec {
	sp := progeng.Spec{Property: "C03", Tier: tier, Seed: seed, Workers: workers, Native: true, NativeStability: true,
		SimCfg: map[string]any{"budget": 80000, "yieldWeights": []int{1, 1}, "tickWeights": []int{10, 4, 2, 2, 6, 3, 1}, "lateWeights": []int{4, 2, 2, 1, 1}},
		Judge:  Judge,
		Rule:   "workload B: one evaluation = one simulated execution of a generated process-network program under one choice tape; non-trivial = at least one perturbation point suspended a goroutine",
	}
	tapes := 24
	if tier == "thorough" {
		sp.Cases, sp.Budget, tapes = 4000, 45*time.Minute, 60
	} else {
		sp.Cases, sp.Budget = 40, 2*time.Minute
	}
	sp.Variants = []progeng.Variant{{Name: "R", Tags: "yieldr", Tapes: tapes}}
	sp.Generate = func(seed int64, i int) *progeng.Prog {
		g := kpngen.Generate(rng.New(seed, "C03B", "prog", i))
		return &progeng.Prog{Files: g.Files, Lib: "seqlib", Features: g.FeatureList(), Clean: true, Atoms: g.Procs}
	}
	return sp
}
