// Package jbuild rebuilds the GopherJS compiler from the repository's current working tree and compiles
// workload programs with it. Everything lands in a scratch directory that the caller removes.
package jbuild

import (
	"bytes"
	"fmt"
	"os"
	"os/exec"
	"path/filepath"
	"strings"
)

type Env struct {
	Repo     string
	Verif    string
	Scratch  string
	Gopherjs string
}

func Repo() string {
	if r := os.Getenv("VERIF_REPO"); r != "" {
		return r
	}
	return "/repo"
}

func VerifDir() string {
	if r := os.Getenv("VERIF_DIR"); r != "" {
		return r
	}
	return "/verif"
}

func goEnv() []string {
	env := os.Environ()
	env = append(env, "GOFLAGS=-mod=mod", "GOPROXY=off", "GOSUMDB=off", "GOTOOLCHAIN=local", "GOPHERJS_SKIP_VERSION_CHECK=1", "GO111MODULE=on")
	return env
}

// Setup creates the scratch directory and builds the compiler. Build trouble is an infrastructure error.
func Setup(name string) (*Env, error) {
	base := os.Getenv("VERIF_SCRATCH")
	if base == "" {
		base = os.TempDir()
	}
	dir, err := os.MkdirTemp(base, "verif-"+name+"-")
	if err != nil {
		return nil, err
	}
	e := &Env{Repo: Repo(), Verif: VerifDir(), Scratch: dir, Gopherjs: filepath.Join(dir, "gopherjs")}
	cmd := exec.Command("go", "build", "-o", e.Gopherjs, ".")
	cmd.Dir = e.Repo
	cmd.Env = goEnv()
	if out, err := cmd.CombinedOutput(); err != nil {
		os.RemoveAll(dir)
		return nil, fmt.Errorf("building gopherjs from %s failed: %v\n%s", e.Repo, err, out)
	}
	return e, nil
}

func (e *Env) Cleanup() {
	if os.Getenv("VERIF_KEEP") == "" {
		os.RemoveAll(e.Scratch)
	}
}

// Compile runs `gopherjs build` in dir (a module directory) and writes out.
func (e *Env) Compile(dir, out string, minify bool, tags string) error {
	args := []string{"build", "-o", out}
	if minify {
		args = append(args, "-m")
	}
	if tags != "" {
		args = append(args, "--tags", tags)
	}
	args = append(args, ".")
	cmd := exec.Command(e.Gopherjs, args...)
	cmd.Dir = dir
	cmd.Env = append(goEnv(), "XDG_CACHE_HOME="+filepath.Join(e.Scratch, "xdgcache"))
	var buf bytes.Buffer
	cmd.Stdout = &buf
	cmd.Stderr = &buf
	if err := cmd.Run(); err != nil {
		return &CompileError{Dir: dir, Output: buf.String(), Err: err}
	}
	return nil
}

type CompileError struct {
	Dir    string
	Output string
	Err    error
}

func (c *CompileError) Error() string {
	return fmt.Sprintf("gopherjs build in %s: %v\n%s", c.Dir, c.Err, strings.TrimSpace(c.Output))
}

// CopyWorkload copies /verif/workloads/<name> into the scratch directory (the compiler must never write
// next to committed sources) and returns the copy's path.
func (e *Env) CopyWorkload(name string) (string, error) {
	src := filepath.Join(e.Verif, "workloads", name)
	dst := filepath.Join(e.Scratch, "wl-"+name)
	err := filepath.Walk(src, func(p string, info os.FileInfo, err error) error {
		if err != nil {
			return err
		}
		rel, _ := filepath.Rel(src, p)
		if info.IsDir() {
			return os.MkdirAll(filepath.Join(dst, rel), 0o755)
		}
		b, err := os.ReadFile(p)
		if err != nil {
			return err
		}
		return os.WriteFile(filepath.Join(dst, rel), b, 0o644)
	})
	return dst, err
}

// WriteFiles writes a generated program (path -> content) under dir.
func WriteFiles(dir string, files map[string]string) error {
	for name, content := range files {
		p := filepath.Join(dir, name)
		if err := os.MkdirAll(filepath.Dir(p), 0o755); err != nil {
			return err
		}
		if err := os.WriteFile(p, []byte(content), 0o644); err != nil {
			return err
		}
	}
	return nil
}

// NativeRun builds dir with the host Go toolchain and runs it, returning stdout+stderr and the exit code.
func (e *Env) NativeRun(dir string, outBin string) (string, int, error) {
	cmd := exec.Command("go", "build", "-o", outBin, ".")
	cmd.Dir = dir
	cmd.Env = goEnv()
	if out, err := cmd.CombinedOutput(); err != nil {
		return string(out), -1, fmt.Errorf("native go build failed: %v\n%s", err, out)
	}
	run := exec.Command(outBin)
	var buf bytes.Buffer
	run.Stdout = &buf
	run.Stderr = &buf
	err := run.Run()
	code := 0
	if ee, ok := err.(*exec.ExitError); ok {
		code = ee.ExitCode()
	} else if err != nil {
		return buf.String(), -1, err
	}
	return buf.String(), code, nil
}
