// Package scripteng is the common engine for World-J checks whose workload is a script interpreter compiled
// once (chanscript, syncscript): seeded cases, several choice tapes per case on a pool of simnode workers,
// a per-run judge, minimisation (case shrink, then tape shrink), replay files, known-finding triage and
// evidence.
package scripteng

import (
	"encoding/json"
	"fmt"
	"os"
	"path/filepath"
	"sort"
	"strings"
	"sync"
	"time"

	"verif/internal/evidence"
	"verif/internal/jbuild"
	"verif/internal/known"
	"verif/internal/rng"
	"verif/internal/simpool"
)

type Verdict struct {
	Class   string
	Message string
	Digest  string // what, beyond the class, identifies this failing observation
}

// Case is one generated workload input together with whatever the oracle prepared for it.
type Case interface {
	JSON() json.RawMessage
	Callbacks() []simpool.CallbackSpec
	Judge(res *simpool.Result) *Verdict
	Candidates() []Case // smaller variants, most aggressive first
	Reach() []string    // probes describing what this case can exercise (evidence)
	Sample(res *simpool.Result) any
	ModelSize() (states, transitions int)
	// SimCfg returns a simulator configuration this case insists on (nil: the engine's seeded choice).
	SimCfg() map[string]any
	// KnownFinding attributes a failure of this case to a listed finding ("" if none).
	KnownFinding(kf *known.File, property string, v *Verdict) string
}

// Prober is optionally implemented by cases whose oracle counts rare conditions it met while judging a run
// ("this branch of the reference model was reached"); the counts go into the evidence as probe:<name>.
type Prober interface {
	Probes(res *simpool.Result) map[string]int
}

type Spec struct {
	Property    string
	Tier        string
	Seed        int64
	Workload    string // directory under /verif/workloads
	ReplayKind  string
	Cases       int
	RunsPerCase int
	Workers     int
	Budget      time.Duration
	Curated     []Case
	Generate    func(seed int64, i int) Case // nil => discarded (counted)
	Decode      func(raw json.RawMessage) (Case, error)
	SimCfg      func(r *rng.R) map[string]any
	Rule        string
	Assumptions []string
	Real, Stub  []string
	Minify      bool
}

type failure struct {
	caseIdx, run int
	c            Case
	cfg          map[string]any
	tape         []int
	v            *Verdict
}

type Engine struct {
	spec   Spec
	Env    *jbuild.Env
	pool   *simpool.Pool
	script string
}

func DefaultSimCfg(r *rng.R) map[string]any {
	cfg := map[string]any{}
	switch r.Intn(4) {
	case 0: // calm: few suspensions, no clock trouble
		cfg["yieldWeights"] = []int{6, 1}
		cfg["tickWeights"] = []int{40, 4, 1, 0, 0, 0, 0}
	case 1: // busy: many suspensions and slice breaks
		cfg["yieldWeights"] = []int{1, 1}
		cfg["tickWeights"] = []int{10, 4, 2, 2, 6, 3, 1}
	case 2: // clock trouble
		cfg["tickWeights"] = []int{10, 2, 2, 2, 3, 3, 6}
		cfg["lateWeights"] = []int{2, 2, 2, 2, 2}
	default:
	}
	if r.Chance(1, 4) {
		cfg["reorder"] = false
	}
	if r.Chance(1, 3) {
		cfg["cbWeights"] = []int{1, 2}
	}
	return cfg
}

// Open builds the compiler and the workload and starts the worker pool.
func Open(spec Spec, workers int) (*Engine, error) {
	env, err := jbuild.Setup(strings.ToLower(spec.Property))
	if err != nil {
		return nil, err
	}
	wl, err := env.CopyWorkload(spec.Workload)
	if err != nil {
		env.Cleanup()
		return nil, err
	}
	script := filepath.Join(env.Scratch, spec.Workload+".js")
	if err := env.Compile(wl, script, spec.Minify, ""); err != nil {
		env.Cleanup()
		return nil, err
	}
	pool, err := simpool.New(filepath.Join(env.Verif, "sim", "simnode.js"), workers)
	if err != nil {
		env.Cleanup()
		return nil, err
	}
	return &Engine{spec: spec, Env: env, pool: pool, script: script}, nil
}

func (e *Engine) Close() {
	e.pool.Close()
	e.Env.Cleanup()
}

func (e *Engine) RunCase(id int, c Case, cfg map[string]any, runs []simpool.Run) ([]simpool.Result, error) {
	job := &simpool.Job{ID: id, Script: e.script, Scenario: c.JSON(), Cfg: cfg, Runs: runs, Callbacks: c.Callbacks()}
	jr, err := e.pool.Do(job)
	if err != nil {
		return nil, err
	}
	return jr.Results, nil
}

// Run executes the batch, writes the evidence file and returns the process exit code.
func Run(spec Spec) int {
	code, ev := RunCollect(spec)
	if ev != nil {
		if err := ev.Write(jbuild.VerifDir()); err != nil {
			fmt.Fprintln(os.Stderr, err)
			return 2
		}
	}
	return code
}

// RunCollect executes the batch and returns the exit code and the evidence (nil on infrastructure trouble).
func RunCollect(spec Spec) (int, *evidence.Evidence) {
	start := time.Now()
	if spec.SimCfg == nil {
		spec.SimCfg = DefaultSimCfg
	}
	e, err := Open(spec, spec.Workers)
	if err != nil {
		fmt.Fprintln(os.Stderr, err)
		return 2, nil
	}
	defer e.Close()
	kf, err := known.Load(e.Env.Verif)
	if err != nil {
		fmt.Fprintln(os.Stderr, err)
		return 2, nil
	}

	// determinism self-test: the first cases are run twice (on whichever workers are free); tapes, histories
	// and outputs must be byte-identical, otherwise nothing this run reports could be replayed.
	if code := e.selfTest(12); code != 0 {
		return code, nil
	}

	counters := evidence.NewCounter()
	interleavings := evidence.NewSet()
	nontrivial := evidence.NewSet()
	cases := evidence.NewSet()
	var mu sync.Mutex
	var failures []*failure
	var infra error
	var samples []any
	modelStates, modelTrans := 0, 0

	total := spec.Cases + len(spec.Curated)
	idx := make(chan int, total)
	for i := 0; i < total; i++ {
		idx <- i
	}
	close(idx)
	deadline := start.Add(spec.Budget)
	var wg sync.WaitGroup
	for w := 0; w < spec.Workers; w++ {
		wg.Add(1)
		go func() {
			defer wg.Done()
			for i := range idx {
				if time.Now().After(deadline) {
					counters.Add("cases_skipped_wallclock", 1)
					continue
				}
				mu.Lock()
				stop := infra != nil || len(failures) >= 40
				mu.Unlock()
				if stop {
					continue
				}
				var c Case
				if i < len(spec.Curated) {
					c = spec.Curated[i]
					counters.Add("curated", 1)
				} else {
					c = spec.Generate(spec.Seed, i)
				}
				if c == nil {
					counters.Add("cases_discarded", 1)
					continue
				}
				r := rng.New(spec.Seed, spec.Property, "simcfg", i)
				cfg := spec.SimCfg(r)
				if oc := c.SimCfg(); oc != nil {
					cfg = oc
				}
				runs := make([]simpool.Run, spec.RunsPerCase)
				for k := range runs {
					runs[k] = simpool.Run{Seed: rng.Derive(spec.Seed, spec.Property, "tape", i, k)}
				}
				if len(runs) > 1 {
					runs[0] = simpool.Run{Tape: []int{}} // the all-default tape
				}
				results, err := e.RunCase(i, c, cfg, runs)
				if err != nil {
					mu.Lock()
					if infra == nil {
						infra = err
					}
					mu.Unlock()
					continue
				}
				key := string(c.JSON())
				cases.Add(key)
				st, tr := c.ModelSize()
				mu.Lock()
				modelStates += st
				modelTrans += tr
				if len(samples) < 3 {
					samples = append(samples, c.Sample(&results[len(results)-1]))
				}
				mu.Unlock()
				for _, k := range c.Reach() {
					counters.Add("reach:"+k, 1)
				}
				for k := range results {
					res := &results[k]
					counters.Add("runs", 1)
					counters.Add("sim_ms", res.SimMs)
					counters.Add("loop_turns", res.Turns)
					for fk, fv := range res.Fired {
						counters.Add("fired:"+fk, fv)
					}
					il, parked := Interleaving(res)
					interleavings.Add(key + il)
					if parked {
						nontrivial.Add(key + il)
					}
					counters.Add("ending:"+endKind(res.End), 1)
					if strings.HasPrefix(res.End, "simerror:") {
						mu.Lock()
						if infra == nil {
							infra = fmt.Errorf("%s", res.End)
						}
						mu.Unlock()
						break
					}
					v := c.Judge(res)
					if pr, ok := c.(Prober); ok {
						for pk, pv := range pr.Probes(res) {
							counters.Add("probe:"+pk, pv)
						}
					}
					if v == nil {
						continue
					}
					mu.Lock()
					failures = append(failures, &failure{caseIdx: i, run: k, c: c, cfg: cfg, tape: res.Tape, v: v})
					mu.Unlock()
					break
				}
			}
		}()
	}
	wg.Wait()
	if infra != nil {
		fmt.Fprintln(os.Stderr, "infrastructure failure:", infra)
		return 2, nil
	}

	sort.Slice(failures, func(a, b int) bool { return failures[a].caseIdx < failures[b].caseIdx })
	violations := 0
	knownHits := map[string]int{}
	reported := map[string]bool{}
	minimised := 0
	for _, f := range failures {
		if id := f.c.KnownFinding(kf, spec.Property, f.v); id != "" {
			knownHits[id]++
			continue
		}
		if reported[f.v.Class] && minimised >= 3 {
			violations++
			continue
		}
		minimised++
		mc, mtape, mv := e.minimise(f)
		if id := mc.KnownFinding(kf, spec.Property, mv); id != "" {
			knownHits[id]++
			continue
		}
		violations++
		reported[f.v.Class] = true
		rp := &evidence.Replay{Property: spec.Property, Class: mv.Class, Message: mv.Message, Kind: spec.ReplayKind, Workload: mc.JSON(), Sim: f.cfg, Tape: mtape,
			Digest: evidence.Digest(mv.Class, mv.Digest), Seed: spec.Seed, FoundAt: fmt.Sprintf("%s case %d run %d", spec.Tier, f.caseIdx, f.run)}
		path, err := evidence.WriteReplay(e.Env.Verif, rp)
		if err != nil {
			fmt.Fprintln(os.Stderr, err)
			return 2, nil
		}
		fmt.Printf("VIOLATION property=%s replay=%s\n", spec.Property, path)
		fmt.Printf("  class=%s %s\n", mv.Class, mv.Message)
	}
	var kids []string
	for id := range knownHits {
		kids = append(kids, id)
	}
	sort.Strings(kids)
	for _, id := range kids {
		fmt.Printf("KNOWN-FINDING: property=%s %s (%d cases)\n", spec.Property, kf.Describe(id), knownHits[id])
	}

	wall := time.Since(start).Seconds()
	runs := counters.Get("runs")
	ev := &evidence.Evidence{PropertyID: spec.Property, Tier: spec.Tier, Seed: spec.Seed, Level: "exploration", WallS: wall, Violations: violations,
		Coverage: map[string]any{
			"evaluations":            runs,
			"distinct_nontrivial":    nontrivial.Len(),
			"rule":                   spec.Rule,
			"samples":                samples,
			"cases":                  cases.Len(),
			"distinct_interleavings": interleavings.Len(),
			"model_states_explored":  modelStates,
			"model_transitions":      modelTrans,
			"simulated_ms":           counters.Get("sim_ms"),
			"runs_per_hour":          int(float64(runs) / wall * 3600),
			"counters":               counters.Map(),
			"known_finding_hits":     knownHits,
			"real_components":        spec.Real,
			"stubbed_components":     spec.Stub,
			"tapes_per_case":         spec.RunsPerCase,
		},
		Assumptions: spec.Assumptions,
	}
	fmt.Printf("%s %s: %d cases, %d runs, %d distinct interleavings (%d non-trivial), %d violations, %d known findings hit, %.1fs\n",
		spec.Property, spec.Tier, cases.Len(), runs, interleavings.Len(), nontrivial.Len(), violations, len(kids), wall)
	if violations > 0 {
		return 1, ev
	}
	return 0, ev
}

func (e *Engine) selfTest(n int) int {
	spec := e.spec
	for i := len(spec.Curated); i < len(spec.Curated)+n; i++ {
		c := spec.Generate(spec.Seed, i)
		if c == nil {
			continue
		}
		cfg := spec.SimCfg(rng.New(spec.Seed, spec.Property, "simcfg", i))
		runs := []simpool.Run{{Seed: rng.Derive(spec.Seed, "selftest", i, 0)}, {Seed: rng.Derive(spec.Seed, "selftest", i, 1)}}
		a, err := e.RunCase(i, c, cfg, runs)
		if err != nil {
			fmt.Fprintln(os.Stderr, "selftest:", err)
			return 2
		}
		b, err := e.RunCase(i, c, cfg, runs)
		if err != nil {
			fmt.Fprintln(os.Stderr, "selftest:", err)
			return 2
		}
		ja, _ := json.Marshal(a)
		jb, _ := json.Marshal(b)
		if string(ja) != string(jb) {
			fmt.Fprintf(os.Stderr, "selftest: case %d is not deterministic under a fixed seed; refusing to report anything\n", i)
			return 2
		}
		// replaying the recorded tape must reproduce the run exactly
		for k := range a {
			rr, err := e.RunCase(i, c, cfg, []simpool.Run{{Tape: a[k].Tape}})
			if err != nil {
				return 2
			}
			x, _ := json.Marshal(a[k].Hist)
			y, _ := json.Marshal(rr[0].Hist)
			if string(x) != string(y) || a[k].End != rr[0].End {
				fmt.Fprintf(os.Stderr, "selftest: case %d: replaying the recorded tape does not reproduce the run\n", i)
				return 2
			}
		}
	}
	return 0
}

func endKind(end string) string {
	if i := strings.Index(end, ":"); i >= 0 && !strings.HasPrefix(end, "exit:") {
		return end[:i]
	}
	return end
}

// Interleaving returns a digest of the global order of operation events and whether anything was suspended
// inside an operation.
func Interleaving(res *simpool.Result) (string, bool) {
	var b strings.Builder
	parked := false
	last := ""
	for _, h := range res.Hist {
		if len(h.A) < 3 {
			continue
		}
		cur := string(h.A[0]) + "." + string(h.A[1])
		ph := string(h.A[2])
		b.WriteString(cur)
		b.WriteString(ph)
		if ph == `"ret"` && last != cur {
			parked = true
		}
		if ph == `"inv"` {
			last = cur
		} else if ph != `"rv"` {
			last = ""
		}
	}
	return evidence.Digest(b.String()), parked
}

func (e *Engine) failing(c Case, cfg map[string]any, tape []int, class string, extraSeeds int, tag string) ([]int, *Verdict) {
	runs := []simpool.Run{{Tape: tape}, {Tape: []int{}}}
	for k := 0; k < extraSeeds; k++ {
		runs = append(runs, simpool.Run{Seed: rng.Derive("shrink", tag, k)})
	}
	results, err := e.RunCase(-1, c, cfg, runs)
	if err != nil {
		return nil, nil
	}
	for k := range results {
		if v := c.Judge(&results[k]); v != nil && v.Class == class {
			return results[k].Tape, v
		}
	}
	return nil, nil
}

func (e *Engine) minimise(f *failure) (Case, []int, *Verdict) {
	c, tape, v := f.c, f.tape, f.v
	evals := 0
	for changed := true; changed && evals < 400; {
		changed = false
		for ci, cand := range c.Candidates() {
			evals++
			if evals >= 400 {
				break
			}
			if t, nv := e.failing(cand, f.cfg, tape, v.Class, 6, fmt.Sprint(evals, ci)); nv != nil {
				c, tape, v = cand, t, nv
				changed = true
				break
			}
		}
	}
	try := func(t []int) bool {
		if _, nv := e.failing1(c, f.cfg, t, v.Class); nv != nil {
			v = nv
			return true
		}
		return false
	}
	lo, hi := 0, len(tape)
	for lo < hi {
		mid := (lo + hi) / 2
		if try(tape[:mid]) {
			hi = mid
		} else {
			lo = mid + 1
		}
	}
	if hi <= len(tape) && try(tape[:hi]) {
		tape = append([]int{}, tape[:hi]...)
	}
	for i := 0; i < len(tape) && i < 300; i++ {
		if tape[i] == 0 {
			continue
		}
		old := tape[i]
		tape[i] = 0
		if !try(tape) {
			tape[i] = old
		}
	}
	if _, nv := e.failing1(c, f.cfg, tape, v.Class); nv != nil {
		v = nv
	}
	return c, tape, v
}

// failing1 runs exactly the given tape.
func (e *Engine) failing1(c Case, cfg map[string]any, tape []int, class string) ([]int, *Verdict) {
	if tape == nil {
		tape = []int{}
	}
	results, err := e.RunCase(-1, c, cfg, []simpool.Run{{Tape: tape}})
	if err != nil {
		return nil, nil
	}
	if v := c.Judge(&results[0]); v != nil && v.Class == class {
		return results[0].Tape, v
	}
	return nil, nil
}

// Replay re-executes a replay file against the current tree: exit 1 when a violation reproduces, 0 when the
// recorded execution is now judged fine, 2 on infrastructure trouble.
func Replay(spec Spec, rp *evidence.Replay) int {
	e, err := Open(spec, 1)
	if err != nil {
		fmt.Fprintln(os.Stderr, err)
		return 2
	}
	defer e.Close()
	c, err := spec.Decode(rp.Workload)
	if err != nil {
		fmt.Fprintln(os.Stderr, err)
		return 2
	}
	tape := rp.Tape
	if tape == nil {
		tape = []int{}
	}
	results, err := e.RunCase(1, c, rp.Sim, []simpool.Run{{Tape: tape}})
	if err != nil {
		fmt.Fprintln(os.Stderr, err)
		return 2
	}
	fmt.Printf("replay: end=%s\n", results[0].End)
	for _, h := range results[0].Hist {
		var s []string
		for _, x := range h.A {
			s = append(s, string(x))
		}
		fmt.Printf("  #%d turn %d %s\n", h.N, h.T, strings.Join(s, " "))
	}
	for _, l := range results[0].Out {
		fmt.Printf("  out: %s\n", l)
	}
	v := c.Judge(&results[0])
	if v == nil {
		fmt.Println("replay: the recorded execution is now allowed (no violation)")
		return 0
	}
	d := evidence.Digest(v.Class, v.Digest)
	fmt.Printf("replay: class=%s digest=%s (recorded class=%s digest=%s)\n  %s\n", v.Class, d, rp.Class, rp.Digest, v.Message)
	if v.Class != rp.Class || d != rp.Digest {
		fmt.Println("replay: a violation, but not the recorded one")
	}
	fmt.Printf("VIOLATION property=%s replay=%s\n", rp.Property, os.Getenv("VERIF_REPLAY_PATH"))
	return 1
}

// Digest runs the first n generated cases under k seeded tapes each and returns a digest of everything the
// simulator returned (tapes, histories, outputs, endings). It must not depend on the number of workers, on
// GOMAXPROCS or on the run: `./check selftest` compares it across such settings.
func Digest(spec Spec, n, k int) (string, error) {
	if spec.SimCfg == nil {
		spec.SimCfg = DefaultSimCfg
	}
	e, err := Open(spec, spec.Workers)
	if err != nil {
		return "", err
	}
	defer e.Close()
	parts := make([]string, n)
	var wg sync.WaitGroup
	var mu sync.Mutex
	var firstErr error
	sem := make(chan struct{}, spec.Workers)
	for i := 0; i < n; i++ {
		wg.Add(1)
		go func(i int) {
			defer wg.Done()
			sem <- struct{}{}
			defer func() { <-sem }()
			c := spec.Generate(spec.Seed, len(spec.Curated)+i)
			if c == nil {
				parts[i] = "discarded"
				return
			}
			cfg := spec.SimCfg(rng.New(spec.Seed, spec.Property, "simcfg", i))
			runs := make([]simpool.Run, k)
			for j := range runs {
				runs[j] = simpool.Run{Seed: rng.Derive(spec.Seed, spec.Property, "tape", i, j)}
			}
			res, err := e.RunCase(i, c, cfg, runs)
			if err != nil {
				mu.Lock()
				firstErr = err
				mu.Unlock()
				return
			}
			b, _ := json.Marshal(res)
			verdicts := ""
			for j := range res {
				if v := c.Judge(&res[j]); v != nil {
					verdicts += v.Class + ";"
				}
			}
			parts[i] = evidence.Digest(string(c.JSON()), string(b), verdicts)
		}(i)
	}
	wg.Wait()
	if firstErr != nil {
		return "", firstErr
	}
	return evidence.Digest(parts...), nil
}
