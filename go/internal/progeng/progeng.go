// Package progeng is the engine for World-J checks whose workloads are generated programs (seqgen, kpngen,
// initgen): each program is compiled by the tree's compiler in one or more variants, run in simnode under
// seeded choice tapes (and, where the oracle needs it, built and run natively), judged, minimised by statement
// deletion and tape shrinking, and written out as a replay file.
package progeng

import (
	"encoding/json"
	"fmt"
	"os"
	"os/exec"
	"path/filepath"
	"sort"
	"strings"
	"sync"
	"time"

	"verif/internal/evidence"
	"verif/internal/jbuild"
	"verif/internal/known"
	"verif/internal/rng"
	"verif/internal/simpool"
)

type Unit struct {
	File     string `json:"file"`
	From, To int    // line range [From,To)
	Form     string `json:"form"`
	Depth    int    `json:"depth"`
}

type Prog struct {
	Files    map[string]string `json:"files"` // relative path -> content
	Lib      string            `json:"lib"`   // directory under /verif/workloads copied into the program directory
	Units    []Unit            `json:"units,omitempty"`
	Features []string          `json:"features,omitempty"`
	Clean    bool              `json:"clean"`
	Atoms    int               `json:"atoms,omitempty"`
	Meta     map[string]any    `json:"meta,omitempty"`
}

type Variant struct {
	Name   string
	Tags   string
	Minify bool
	Tapes  int // seeded tapes in addition to the all-default tape
}

type Obs struct {
	Native     []string // output lines of the natively built program (nil if not requested)
	NativeCode int
	Runs       map[string][]simpool.Result // per variant: [0] = all-default tape, then seeded/explicit tapes
	// LoadError is set when the JavaScript the compiler emitted for a variant does not parse.
	LoadError, LoadVariant string
}

// judge is the property's judge, preceded by what holds for every property decided on compiled programs: the
// emitted JavaScript must at least load.
func (s *Spec) judge(p *Prog, o *Obs) *Verdict {
	if o.LoadError != "" {
		msg := o.LoadError
		if i := strings.Index(msg, "/prog"); i >= 0 { // drop the scratch directory from the message (digest stability)
			if j := strings.Index(msg[i:], "/out_"); j >= 0 {
				msg = msg[:i] + msg[i+j:]
			}
		}
		return &Verdict{Class: "compiled-program-does-not-load", Message: fmt.Sprintf("the JavaScript emitted for variant %s is not valid: %s", o.LoadVariant, msg), Digest: "loaderror", Variant: o.LoadVariant}
	}
	return s.Judge(p, o)
}

type Verdict struct {
	Class   string
	Message string
	Digest  string
	Variant string // the variant and run index whose tape reproduces the failure
	Run     int
}

type Spec struct {
	Property string
	Tier     string
	Seed     int64
	Workers  int
	Cases    int
	Budget   time.Duration
	Variants []Variant
	Native   bool
	// NativeStability re-runs the native reference under several GOMAXPROCS settings; an unstable reference means
	// the generator produced a program that is not deterministic by construction (exit 2, never a VIOLATION).
	NativeStability bool
	// NativePrepare, if set, returns the files of the native reference build given what the GopherJS runs
	// showed (C10 aligns the order in which files are presented); default: the program as is.
	NativePrepare func(p *Prog, o *Obs) (*Prog, error)
	SimCfg        map[string]any
	Generate      func(seed int64, i int) *Prog
	// Curated programs (hand-written, under /verif/workloads/curated) are evaluated before the generated ones.
	Curated     []*Prog
	Judge       func(p *Prog, o *Obs) *Verdict
	KnownMatch  func(kf *known.File, p *Prog, v *Verdict) string
	Rule        string
	Assumptions []string
	Real, Stub  []string
	MaxShrink   int
}

type Engine struct {
	spec Spec
	Env  *jbuild.Env
	pool *simpool.Pool
	mu   sync.Mutex
	seq  int
}

func Open(spec Spec, workers int) (*Engine, error) {
	env, err := jbuild.Setup(strings.ToLower(spec.Property))
	if err != nil {
		return nil, err
	}
	pool, err := simpool.New(filepath.Join(env.Verif, "sim", "simnode.js"), workers)
	if err != nil {
		env.Cleanup()
		return nil, err
	}
	return &Engine{spec: spec, Env: env, pool: pool}, nil
}

func (e *Engine) Close() {
	e.pool.Close()
	e.Env.Cleanup()
}

type built struct {
	dir     string
	scripts map[string]string
	prog    *Prog
}

// DiscardCase marks a generated case that cannot be judged for a reason that lies in the generator alone; it is
// counted in the evidence and skipped.
type DiscardCase struct{ Msg string }

func (e *DiscardCase) Error() string { return e.Msg }

// InfraError marks trouble that is not a property violation (exit 2).
type InfraError struct{ Msg string }

func (e *InfraError) Error() string { return e.Msg }

// CompileFailure: the tree's compiler rejected or crashed on a generated program.
type CompileFailure struct {
	Variant string
	Output  string
}

func (c *CompileFailure) Error() string {
	return "gopherjs build (" + c.Variant + ") failed: " + c.Output
}

func (e *Engine) materialise(p *Prog) (string, error) {
	e.mu.Lock()
	e.seq++
	dir := filepath.Join(e.Env.Scratch, fmt.Sprintf("prog%06d", e.seq))
	e.mu.Unlock()
	if err := os.MkdirAll(dir, 0o755); err != nil {
		return "", err
	}
	if p.Lib != "" {
		src := filepath.Join(e.Env.Verif, "workloads", p.Lib)
		err := filepath.Walk(src, func(path string, info os.FileInfo, err error) error {
			if err != nil {
				return err
			}
			rel, _ := filepath.Rel(src, path)
			if info.IsDir() {
				return os.MkdirAll(filepath.Join(dir, rel), 0o755)
			}
			b, err := os.ReadFile(path)
			if err != nil {
				return err
			}
			return os.WriteFile(filepath.Join(dir, rel), b, 0o644)
		})
		if err != nil {
			return "", err
		}
	}
	if err := jbuild.WriteFiles(dir, p.Files); err != nil {
		return "", err
	}
	return dir, nil
}

func (e *Engine) build(p *Prog) (*built, error) {
	dir, err := e.materialise(p)
	if err != nil {
		return nil, &InfraError{err.Error()}
	}
	b := &built{dir: dir, scripts: map[string]string{}, prog: p}
	for _, v := range e.spec.Variants {
		out := filepath.Join(dir, "out_"+v.Name+".js")
		if err := e.Env.Compile(dir, out, v.Minify, v.Tags); err != nil {
			os.RemoveAll(dir)
			return nil, &CompileFailure{Variant: v.Name, Output: err.Error()}
		}
		b.scripts[v.Name] = out
	}
	return b, nil
}

func (e *Engine) native(b *built) ([]string, int, error) {
	out, code, err := e.Env.NativeRun(b.dir, filepath.Join(b.dir, "native.bin"))
	if err != nil {
		return nil, 0, &InfraError{"native reference: " + err.Error() + "\n" + out}
	}
	if e.spec.NativeStability {
		if code != 0 {
			return nil, 0, &DiscardCase{"the native reference program does not terminate normally"}
		}
		for _, procs := range []string{"1", "4", "16", "2"} {
			c := exec.Command(filepath.Join(b.dir, "native.bin"))
			c.Env = append(os.Environ(), "GOMAXPROCS="+procs)
			o2, _ := c.CombinedOutput()
			if string(o2) != out {
				// The generator promised a deterministic program and did not keep the promise for this one (e.g. a
				// process network that deadlocks natively, whose goroutine dump differs from run to run): the
				// program cannot serve as its own reference and is set aside, whatever the tree under test does.
				return nil, 0, &DiscardCase{"the native reference program is not deterministic (output differs under GOMAXPROCS=" + procs + ")"}
			}
		}
	}
	lines := strings.Split(strings.TrimRight(out, "\n"), "\n")
	return lines, code, nil
}

// observe runs every variant: the all-default tape, the variant's seeded tapes, and any extra explicit tapes.
func (e *Engine) observe(b *built, seedKey string, extra map[string][][]int, seeded bool) (*Obs, error) {
	o := &Obs{Runs: map[string][]simpool.Result{}}
	f := false
	for _, v := range e.spec.Variants {
		runs := []simpool.Run{{Tape: []int{}}}
		for _, t := range extra[v.Name] {
			if t == nil {
				t = []int{}
			}
			runs = append(runs, simpool.Run{Tape: t})
		}
		if seeded {
			for k := 0; k < v.Tapes; k++ {
				runs = append(runs, simpool.Run{Seed: rng.Derive(seedKey, v.Name, k)})
			}
		}
		job := &simpool.Job{ID: 1, Script: b.scripts[v.Name], Cfg: e.spec.SimCfg, Runs: runs, WantHist: &f, Evict: true}
		jr, err := e.pool.Do(job)
		if err != nil {
			return nil, err
		}
		for _, r := range jr.Results {
			if strings.HasPrefix(r.End, "simerror:") {
				return nil, &InfraError{r.End}
			}
			if strings.HasPrefix(r.End, "loaderror:") && o.LoadError == "" {
				o.LoadError, o.LoadVariant = strings.TrimPrefix(r.End, "loaderror:"), v.Name
			}
		}
		o.Runs[v.Name] = jr.Results
	}
	if e.spec.Native {
		nb := b
		if e.spec.NativePrepare != nil {
			np, err := e.spec.NativePrepare(b.prog, o)
			if err != nil {
				// the runs do not even allow a reference to be built: the judge reports why
				o.NativeCode = -1
				o.Native = []string{"NATIVE-PREPARE: " + err.Error()}
				return o, nil
			}
			dir, err := e.materialise(np)
			if err != nil {
				return nil, &InfraError{err.Error()}
			}
			defer os.RemoveAll(dir)
			nb = &built{dir: dir}
		}
		lines, code, err := e.native(nb)
		if err != nil {
			return nil, err
		}
		o.Native, o.NativeCode = lines, code
	}
	return o, nil
}

type failure struct {
	caseIdx int
	p       *Prog
	v       *Verdict
	tape    []int
}

// Run executes the batch, writes the evidence file and returns the process exit code.
func Run(spec Spec) int {
	code, ev := RunCollect(spec)
	if ev != nil {
		if err := ev.Write(jbuild.VerifDir()); err != nil {
			fmt.Fprintln(os.Stderr, err)
			return 2
		}
	}
	return code
}

// RunCollect executes the batch and returns the exit code and the evidence (nil on infrastructure trouble).
func RunCollect(spec Spec) (int, *evidence.Evidence) {
	start := time.Now()
	e, err := Open(spec, spec.Workers)
	if err != nil {
		fmt.Fprintln(os.Stderr, err)
		return 2, nil
	}
	defer e.Close()
	kf, err := known.Load(e.Env.Verif)
	if err != nil {
		fmt.Fprintln(os.Stderr, err)
		return 2, nil
	}
	counters := evidence.NewCounter()
	progs := evidence.NewSet()
	schedules := evidence.NewSet()
	nontrivial := evidence.NewSet()
	var mu sync.Mutex
	var failures, attributed []*failure
	var infra error
	var samples []any

	idx := make(chan int, spec.Cases+len(spec.Curated))
	for i := -len(spec.Curated); i < spec.Cases; i++ {
		idx <- i
	}
	close(idx)
	deadline := start.Add(spec.Budget)
	var wg sync.WaitGroup
	for w := 0; w < spec.Workers; w++ {
		wg.Add(1)
		go func() {
			defer wg.Done()
			for i := range idx {
				if time.Now().After(deadline) {
					counters.Add("cases_skipped_wallclock", 1)
					continue
				}
				mu.Lock()
				stop := infra != nil || len(failures) >= 24
				mu.Unlock()
				if stop {
					continue
				}
				var p *Prog
				if i < 0 {
					p = spec.Curated[-i-1]
					counters.Add("curated_programs", 1)
				} else {
					p = spec.Generate(spec.Seed, i)
				}
				if p == nil {
					counters.Add("cases_discarded", 1)
					continue
				}
				b, err := e.build(p)
				if err != nil {
					if cf, ok := err.(*CompileFailure); ok {
						// A generated program is type-correct by construction; a compiler that rejects or crashes
						// on it is trouble the check cannot judge: fail loudly as infrastructure.
						err = &InfraError{fmt.Sprintf("case %d: %v", i, cf)}
					}
					mu.Lock()
					if infra == nil {
						infra = err
					}
					mu.Unlock()
					continue
				}
				o, err := e.observe(b, rng.Derive(spec.Seed, spec.Property, "tapes", i), nil, true)
				os.RemoveAll(b.dir)
				if dc, ok := err.(*DiscardCase); ok {
					counters.Add("cases_discarded", 1)
					counters.Add("cases_discarded:"+dc.Msg, 1)
					continue
				}
				if err != nil {
					mu.Lock()
					if infra == nil {
						infra = fmt.Errorf("case %d: %w", i, err)
						if dir := os.Getenv("VERIF_KEEP_INFRA"); dir != "" { // debugging aid: keep the program
							for name, content := range p.Files {
								os.MkdirAll(filepath.Join(dir, filepath.Dir(name)), 0o755)
								os.WriteFile(filepath.Join(dir, name), []byte(content), 0o644)
							}
						}
					}
					mu.Unlock()
					continue
				}
				key := evidence.Digest(p.Files["main.go"], fmt.Sprint(i))
				progs.Add(key)
				if p.Clean {
					counters.Add("programs_clean_mode", 1)
				} else {
					counters.Add("programs_trigger_allowed_mode", 1)
				}
				for _, f := range p.Features {
					counters.Add("feature:"+f, 1)
				}
				counters.Add("atoms_static", p.Atoms)
				for vn, rs := range o.Runs {
					for k := range rs {
						r := &rs[k]
						counters.Add("runs", 1)
						counters.Add("runs:"+vn, 1)
						counters.Add("sim_ms", r.SimMs)
						counters.Add("loop_turns", r.Turns)
						for fk, fv := range r.Fired {
							counters.Add("fired:"+fk, fv)
						}
						counters.Add("output_lines", len(r.Out))
						sk := key + vn + r.Sched + fmt.Sprint(r.Fired["suspensions"])
						schedules.Add(sk)
						if r.Fired["suspensions"] > 0 {
							nontrivial.Add(sk)
						}
					}
				}
				mu.Lock()
				if len(samples) < 2 {
					var vn string
					for _, v := range spec.Variants {
						vn = v.Name
					}
					rs := o.Runs[vn]
					last := rs[len(rs)-1]
					samples = append(samples, map[string]any{"program_main_go": p.Files["main.go"], "variant": vn, "suspensions": last.Fired["suspensions"], "output_head": head(last.Out, 12), "end": last.End})
				}
				mu.Unlock()
				v := spec.judge(p, o)
				if v == nil {
					continue
				}
				var tape []int
				if rs, ok := o.Runs[v.Variant]; ok && v.Run < len(rs) {
					tape = rs[v.Run].Tape
				}
				mu.Lock()
				if spec.KnownMatch != nil && v.Class != "out-of-scope" && spec.KnownMatch(kf, p, v) != "" {
					// a listed finding: kept for the report, but it must not use up the budget of failures after
					// which the run stops (one program in eight of C02 is allowed to contain the known shapes)
					attributed = append(attributed, &failure{caseIdx: i, p: p, v: v, tape: tape})
				} else {
					failures = append(failures, &failure{caseIdx: i, p: p, v: v, tape: tape})
				}
				mu.Unlock()
			}
		}()
	}
	wg.Wait()
	if infra != nil {
		fmt.Fprintln(os.Stderr, "infrastructure failure:", infra)
		return 2, nil
	}

	failures = append(failures, attributed...)
	sort.Slice(failures, func(a, b int) bool { return failures[a].caseIdx < failures[b].caseIdx })
	violations := 0
	knownHits := map[string]int{}
	outOfScope := 0
	reported := map[string]int{}
	for _, f := range failures {
		if f.v.Class == "out-of-scope" {
			outOfScope++
			continue
		}
		if spec.KnownMatch != nil {
			// the trigger predicates look at the statement holding the first differing atoms, which the
			// unminimised program identifies just as well; no need to minimise an attributed failure
			if id := spec.KnownMatch(kf, f.p, f.v); id != "" {
				knownHits[id]++
				continue
			}
		}
		if reported[f.v.Class] >= 2 {
			// already minimised and reported twice for this class; count without spending more time
			if spec.KnownMatch != nil {
				if id := spec.KnownMatch(kf, f.p, f.v); id != "" {
					knownHits[id]++
					continue
				}
			}
			violations++
			continue
		}
		mp, mtape, mv := e.minimise(f)
		if spec.KnownMatch != nil {
			if id := spec.KnownMatch(kf, mp, mv); id != "" {
				knownHits[id]++
				continue
			}
		}
		if mv.Class == "out-of-scope" {
			outOfScope++
			continue
		}
		violations++
		reported[f.v.Class]++
		raw, _ := json.Marshal(mp)
		rp := &evidence.Replay{Property: spec.Property, Class: mv.Class, Message: mv.Message, Kind: "program:" + spec.Property, Workload: raw, Sim: spec.SimCfg, Tape: mtape,
			Digest: evidence.Digest(mv.Class, mv.Digest), Seed: spec.Seed, FoundAt: fmt.Sprintf("%s case %d variant %s run %d", spec.Tier, f.caseIdx, mv.Variant, mv.Run)}
		path, err := evidence.WriteReplay(e.Env.Verif, rp)
		if err != nil {
			fmt.Fprintln(os.Stderr, err)
			return 2, nil
		}
		fmt.Printf("VIOLATION property=%s replay=%s\n", spec.Property, path)
		fmt.Printf("  class=%s %s\n", mv.Class, mv.Message)
	}
	var kids []string
	for id := range knownHits {
		kids = append(kids, id)
	}
	sort.Strings(kids)
	for _, id := range kids {
		fmt.Printf("KNOWN-FINDING: property=%s %s (%d programs)\n", spec.Property, kf.Describe(id), knownHits[id])
	}
	wall := time.Since(start).Seconds()
	runs := counters.Get("runs")
	ev := &evidence.Evidence{PropertyID: spec.Property, Tier: spec.Tier, Seed: spec.Seed, Level: "exploration", WallS: wall, Violations: violations,
		Coverage: map[string]any{
			"evaluations":                runs,
			"distinct_nontrivial":        nontrivial.Len(),
			"rule":                       spec.Rule,
			"samples":                    samples,
			"programs":                   progs.Len(),
			"distinct_schedules":         schedules.Len(),
			"simulated_ms":               counters.Get("sim_ms"),
			"runs_per_hour":              int(float64(runs) / wall * 3600),
			"counters":                   counters.Map(),
			"known_finding_hits":         knownHits,
			"out_of_scope_disagreements": outOfScope,
			"real_components":            spec.Real,
			"stubbed_components":         spec.Stub,
		},
		Assumptions: spec.Assumptions,
	}
	fmt.Printf("%s %s: %d programs, %d runs, %d distinct schedules (%d with suspensions), %d violations, %d known findings hit, %d out-of-scope, %.1fs\n",
		spec.Property, spec.Tier, progs.Len(), runs, schedules.Len(), nontrivial.Len(), violations, len(kids), outOfScope, wall)
	if violations > 0 {
		return 1, ev
	}
	return 0, ev
}

func head(l []string, n int) []string {
	if len(l) > n {
		return l[:n]
	}
	return l
}

// ---------------------------------------------------------------- minimisation

func deleteUnit(p *Prog, ui int) *Prog {
	u := p.Units[ui]
	file := u.File
	if file == "" {
		file = "main.go"
	}
	lines := strings.Split(p.Files[file], "\n")
	if u.To > len(lines) || u.From >= u.To {
		return nil
	}
	n := &Prog{Files: map[string]string{}, Lib: p.Lib, Features: p.Features, Clean: p.Clean, Atoms: p.Atoms, Meta: p.Meta}
	for k, v := range p.Files {
		n.Files[k] = v
	}
	n.Files[file] = strings.Join(append(append([]string{}, lines[:u.From]...), lines[u.To:]...), "\n")
	d := u.To - u.From
	for i, x := range p.Units {
		if i == ui {
			continue
		}
		xf := x.File
		if xf == "" {
			xf = "main.go"
		}
		if xf != file {
			n.Units = append(n.Units, x)
			continue
		}
		switch {
		case x.From >= u.From && x.To <= u.To:
			// nested inside the deleted unit
		case x.From >= u.To:
			x.From -= d
			x.To -= d
			n.Units = append(n.Units, x)
		case x.From <= u.From && x.To >= u.To:
			x.To -= d
			n.Units = append(n.Units, x)
		default:
			n.Units = append(n.Units, x)
		}
	}
	return n
}

// check rebuilds a candidate and reports whether it still fails with the same class.
func (e *Engine) check(p *Prog, tape []int, variant string, class string, seeded bool) (*Verdict, []int) {
	b, err := e.build(p)
	if err != nil {
		return nil, nil
	}
	defer os.RemoveAll(b.dir)
	extra := map[string][][]int{}
	if tape != nil {
		extra[variant] = [][]int{tape}
	}
	o, err := e.observe(b, "shrink", extra, seeded)
	if err != nil {
		return nil, nil
	}
	v := e.spec.judge(p, o)
	if v == nil || v.Class != class {
		return nil, nil
	}
	var t []int
	if rs, ok := o.Runs[v.Variant]; ok && v.Run < len(rs) {
		t = rs[v.Run].Tape
	}
	return v, t
}

func (e *Engine) minimise(f *failure) (*Prog, []int, *Verdict) {
	p, tape, v := f.p, f.tape, f.v
	max := e.spec.MaxShrink
	if max == 0 {
		max = 120
	}
	evals := 0
	for changed := true; changed && evals < max; {
		changed = false
		for ui := 0; ui < len(p.Units) && evals < max; ui++ {
			cand := deleteUnit(p, ui)
			if cand == nil {
				continue
			}
			evals++
			if nv, nt := e.check(cand, tape, v.Variant, v.Class, true); nv != nil {
				p, v, tape = cand, nv, nt
				changed = true
				break
			}
		}
	}
	// tape shrinking (only meaningful when the failing run is tape-dependent)
	if len(tape) > 0 {
		try := func(t []int) bool {
			if nv, _ := e.check(p, t, v.Variant, v.Class, false); nv != nil && nv.Run == 1 {
				v = nv
				return true
			}
			return false
		}
		if try([]int{}) {
			tape = []int{}
		} else {
			lo, hi := 0, len(tape)
			for lo < hi && evals < max+60 {
				evals++
				mid := (lo + hi) / 2
				if try(tape[:mid]) {
					hi = mid
				} else {
					lo = mid + 1
				}
			}
			if hi < len(tape) && try(tape[:hi]) {
				tape = append([]int{}, tape[:hi]...)
			}
		}
	}
	return p, tape, v
}

// Replay re-executes a replay file against the current tree.
func Replay(spec Spec, rp *evidence.Replay) int {
	e, err := Open(spec, 1)
	if err != nil {
		fmt.Fprintln(os.Stderr, err)
		return 2
	}
	defer e.Close()
	var p Prog
	if err := json.Unmarshal(rp.Workload, &p); err != nil {
		fmt.Fprintln(os.Stderr, err)
		return 2
	}
	b, err := e.build(&p)
	if err != nil {
		fmt.Fprintln(os.Stderr, err)
		return 2
	}
	extra := map[string][][]int{}
	// FoundAt carries the variant name
	variant := ""
	if i := strings.Index(rp.FoundAt, "variant "); i >= 0 {
		variant = strings.Fields(rp.FoundAt[i+8:])[0]
	}
	tape := rp.Tape
	if tape == nil {
		tape = []int{}
	}
	if variant != "" {
		extra[variant] = [][]int{tape}
	}
	o, err := e.observe(b, "replay", extra, false)
	if err != nil {
		fmt.Fprintln(os.Stderr, err)
		return 2
	}
	v := spec.judge(&p, o)
	if v == nil {
		fmt.Println("replay: the recorded program and tape no longer fail")
		return 0
	}
	d := evidence.Digest(v.Class, v.Digest)
	fmt.Printf("replay: class=%s digest=%s (recorded class=%s digest=%s)\n  %s\n", v.Class, d, rp.Class, rp.Digest, v.Message)
	if v.Class == "out-of-scope" {
		return 0
	}
	fmt.Printf("VIOLATION property=%s replay=%s\n", rp.Property, os.Getenv("VERIF_REPLAY_PATH"))
	return 1
}

// LoadCurated reads a hand-written program from /verif/workloads/curated/<name>.
func LoadCurated(name, lib string) (*Prog, error) {
	dir := filepath.Join(jbuild.VerifDir(), "workloads", "curated", name)
	p := &Prog{Files: map[string]string{}, Lib: lib, Clean: true, Features: []string{"curated:" + name}}
	ents, err := os.ReadDir(dir)
	if err != nil {
		return nil, err
	}
	for _, e := range ents {
		if e.IsDir() {
			continue
		}
		b, err := os.ReadFile(filepath.Join(dir, e.Name()))
		if err != nil {
			return nil, err
		}
		p.Files[e.Name()] = string(b)
	}
	return p, nil
}
