// Package c10 is the C10 check (ordering and suspension facet): packages are initialised once, after their
// imports; variables after their dependencies, else in declaration order; init functions in order; main last;
// and initialisers or init functions that suspend do not let anything overtake them. Generated multi-package
// programs (initgen) are built in direct and resumable form and run under seeded suspension tapes; the trace
// must be the same for every tape and equal to the trace of the natively built program, after the native copy's
// files were renamed so that the Go toolchain presents them in the order observed in the GopherJS trace (Go
// leaves that order open; GopherJS must use one fixed order that depends only on the file names).
package c10

import (
	"fmt"
	"path/filepath"
	"sort"
	"strconv"
	"strings"
	"sync"
	"time"

	"verif/internal/evidence"
	"verif/internal/initgen"
	"verif/internal/known"
	"verif/internal/progeng"
	"verif/internal/rng"
)

func diffLines(a, b []string) string {
	n := len(a)
	if len(b) < n {
		n = len(b)
	}
	for i := 0; i < n; i++ {
		if a[i] != b[i] {
			lo := i - 4
			if lo < 0 {
				lo = 0
			}
			return fmt.Sprintf("line %d: %q vs %q (context %v | %v)", i, a[i], b[i], a[lo:min(i+3, len(a))], b[lo:min(i+3, len(b))])
		}
	}
	if len(a) != len(b) {
		return fmt.Sprintf("one trace is a prefix of the other (%d vs %d lines)", len(a), len(b))
	}
	return ""
}

// fileOrder extracts, per package directory, the order in which the identifying init functions of its files ran.
func fileOrder(p *progeng.Prog, out []string) (map[string][]string, error) {
	ids := map[string]string{}
	switch m := p.Meta["fileIDs"].(type) {
	case map[string]string:
		ids = m
	case map[string]any:
		for k, v := range m {
			ids[k], _ = v.(string)
		}
	}
	order := map[string][]string{}
	seen := map[string]bool{}
	for _, l := range out {
		f := strings.Fields(l)
		if len(f) != 2 {
			continue
		}
		if path, ok := ids[f[1]]; ok {
			if seen[path] {
				return nil, fmt.Errorf("the identifying init of %s ran twice", path)
			}
			seen[path] = true
			dir := filepath.Dir(path)
			order[dir] = append(order[dir], filepath.Base(path))
		}
	}
	if len(seen) != len(ids) {
		var missing []string
		for _, path := range ids {
			if !seen[path] {
				missing = append(missing, path)
			}
		}
		sort.Strings(missing)
		// packages nobody imports are not linked; only complain about files of linked packages
		linked := map[string]bool{}
		for path := range seen {
			linked[filepath.Dir(path)] = true
		}
		for _, m := range missing {
			if linked[filepath.Dir(m)] {
				return nil, fmt.Errorf("the init functions of %s never ran although its package was initialised", m)
			}
		}
	}
	return order, nil
}

// nameOrders remembers, across all programs of a run, the order observed for each set of file names: the
// order may depend on nothing but the names.
var (
	nameMu     sync.Mutex
	nameOrders = map[string]string{}
)

func checkNameDependence(order map[string][]string) string {
	nameMu.Lock()
	defer nameMu.Unlock()
	for _, files := range order {
		sorted := append([]string{}, files...)
		sort.Strings(sorted)
		key := strings.Join(sorted, ",")
		got := strings.Join(files, ",")
		if prev, ok := nameOrders[key]; ok && prev != got {
			return fmt.Sprintf("files {%s} were presented as [%s] in one package and as [%s] in another: the order depends on more than the names", key, prev, got)
		}
		nameOrders[key] = got
	}
	return ""
}

func nativePrepare(p *progeng.Prog, o *progeng.Obs) (*progeng.Prog, error) {
	order, err := fileOrder(p, o.Runs["D"][0].Out)
	if err != nil {
		return nil, err
	}
	n := &progeng.Prog{Files: map[string]string{}, Lib: p.Lib}
	rename := map[string]string{}
	for dir, files := range order {
		for i, f := range files {
			rename[filepath.Join(dir, f)] = filepath.Join(dir, fmt.Sprintf("f%02d_%s", i, strings.ToLower(f)))
		}
	}
	for path, content := range p.Files {
		clean := filepath.Clean(path)
		if np, ok := rename[clean]; ok {
			n.Files[np] = content
		} else {
			n.Files[path] = content
		}
	}
	return n, nil
}

func Judge(p *progeng.Prog, o *progeng.Obs) *progeng.Verdict {
	d := o.Runs["D"][0]
	if d.End != "drained" {
		return &progeng.Verdict{Class: "abnormal-end", Message: fmt.Sprintf("D run ended with %q (tail %v)", d.End, tail(d.Out)), Digest: d.End, Variant: "D"}
	}
	order, err := fileOrder(p, d.Out)
	if err != nil {
		return &progeng.Verdict{Class: "init-once", Message: err.Error(), Digest: err.Error(), Variant: "D"}
	}
	if msg := checkNameDependence(order); msg != "" {
		return &progeng.Verdict{Class: "file-order-not-name-determined", Message: msg, Digest: msg, Variant: "D"}
	}
	for k, r := range o.Runs["R"] {
		if r.End != "drained" {
			return &progeng.Verdict{Class: "abnormal-end", Message: fmt.Sprintf("R run ended with %q (tail %v)", r.End, tail(r.Out)), Digest: r.End, Variant: "R", Run: k}
		}
		if df := diffLines(d.Out, r.Out); df != "" {
			cls := "suspension-reorders-initialisation"
			if k == 0 {
				cls = "direct-vs-resumable-initialisation"
			}
			return &progeng.Verdict{Class: cls, Message: fmt.Sprintf("initialisation trace differs between the direct build and the resumable build with %d suspensions: %s", r.Fired["suspensions"], df), Digest: df, Variant: "R", Run: k}
		}
	}
	if o.NativeCode != 0 || len(o.Native) == 0 || o.Native[len(o.Native)-1] != "END" {
		return &progeng.Verdict{Class: "generator-native-failure", Message: fmt.Sprintf("native reference failed (%d): %v", o.NativeCode, tail(o.Native))}
	}
	// The specification fixes the order of independent packages only since Go 1.21 (sorted by import path);
	// the property demands "after all packages it imports". So: every package's initialisation is one
	// contiguous block, blocks respect the import graph, main comes last, and each block equals the native one.
	nb, err := segment(p, o.Native)
	if err != nil {
		return &progeng.Verdict{Class: "generator-native-failure", Message: "native trace: " + err.Error()}
	}
	gb, err := segment(p, d.Out)
	if err != nil {
		return &progeng.Verdict{Class: "package-init-order", Message: err.Error(), Digest: err.Error(), Variant: "D"}
	}
	for pk, lines := range nb.byPkg {
		if df := diffLines(lines, gb.byPkg[pk]); df != "" {
			return &progeng.Verdict{Class: "order-vs-native", Message: fmt.Sprintf("initialisation trace of package %d differs from the natively built program (files presented in the same order): %s", pk, df), Digest: df, Variant: "D"}
		}
	}
	if len(nb.byPkg) != len(gb.byPkg) {
		return &progeng.Verdict{Class: "order-vs-native", Message: "a different set of packages was initialised than natively", Variant: "D"}
	}
	return nil
}

type blocks struct {
	order []int
	byPkg map[int][]string
}

// segment cuts a trace into per-package blocks and checks contiguity and the import order.
func segment(p *progeng.Prog, lines []string) (*blocks, error) {
	ranges := intLists(p.Meta["atomRange"])
	imports := intLists(p.Meta["imports"])
	pkgOf := func(l string) int {
		f := strings.Fields(l)
		if len(f) != 2 {
			return -1
		}
		v, err := strconv.Atoi(f[1])
		if err != nil {
			return -1
		}
		if v >= 1000000 {
			return (v - 1000000) / 100
		}
		if v < 0 {
			for k, r := range ranges {
				if -v >= r[0] && -v <= r[1] {
					return k
				}
			}
		}
		return -1
	}
	b := &blocks{byPkg: map[int][]string{}}
	cur := -1
	for _, l := range lines {
		if l == "END" {
			break
		}
		pk := pkgOf(l)
		if pk >= 0 && pk != cur {
			if _, seen := b.byPkg[pk]; seen {
				return nil, fmt.Errorf("initialisation of package %d is not contiguous: something ran in between (line %q)", pk, l)
			}
			cur = pk
			b.order = append(b.order, pk)
		}
		if cur < 0 {
			return nil, fmt.Errorf("trace line %q before any package's initialisation", l)
		}
		b.byPkg[cur] = append(b.byPkg[cur], l)
	}
	pos := map[int]int{}
	for i, pk := range b.order {
		pos[pk] = i
	}
	for pk, i := range pos {
		for _, dep := range imports[pk] {
			j, ok := pos[dep]
			if !ok || j > i {
				return nil, fmt.Errorf("package %d was initialised before package %d, which it imports", pk, dep)
			}
		}
	}
	if len(b.order) > 0 && b.order[len(b.order)-1] != len(imports)-1 {
		return nil, fmt.Errorf("package main was not initialised last")
	}
	return b, nil
}

func tail(l []string) []string {
	if len(l) > 4 {
		return l[len(l)-4:]
	}
	return l
}

func Spec(tier string, seed int64, workers int) progeng.Spec {
	sp := progeng.Spec{Property: "C10", Tier: tier, Seed: seed, Workers: workers, Native: true, NativePrepare: nativePrepare,
		SimCfg: map[string]any{"budget": 60000, "yieldWeights": []int{2, 1}},
		Judge:  Judge,
		Rule: "one evaluation = one simulated execution of a generated multi-package program (direct build once, resumable build under the all-default tape and seeded suspension tapes); distinct = distinct (program, variant, timer schedule digest, suspension count); " +
			"non-trivial = at least one initialiser or init function actually suspended",
		Real: []string{"gopherjs compiler built from /repo working tree (dependency-ordered assembly, $init state machines, InitOrder, file sorting)", "prelude", "generated multi-package programs"},
		Stub: []string{"Node event loop and timers (simnode)", "Date.now", "Math.random", "process.exit", "console"},
		Assumptions: []string{
			"the natively built program is the reference once its files are renamed so that go build presents them in the order observed in the GopherJS trace (the specification leaves that order open)",
			"go:linkname validation and direction are compile-time facts and are not decided here",
		},
	}
	tapes := 16
	if tier == "thorough" {
		sp.Cases, sp.Budget, tapes = 4000, 60*time.Minute, 40
	} else {
		sp.Cases, sp.Budget = 100, 4*time.Minute
	}
	sp.Variants = []progeng.Variant{{Name: "D"}, {Name: "R", Tags: "yieldr", Tapes: tapes}}
	sp.Generate = func(seed int64, i int) *progeng.Prog {
		r := rng.New(seed, "C10", "prog", i)
		sw := rng.New(seed, "C10", "swarm", i/10)
		g := initgen.Generate(r, initgen.Opts{MaxPkgs: 1 + sw.Intn(5), MaxFiles: 1 + sw.Intn(3), MaxVars: 2 + sw.Intn(6)})
		ids := map[string]string{}
		for id, path := range g.FileIDs {
			ids[strconv.Itoa(id)] = path
		}
		return &progeng.Prog{Files: g.Files, Lib: "seqlib", Features: g.FeatureList(), Clean: true, Atoms: g.Atoms, Meta: map[string]any{"fileIDs": ids, "atomRange": g.AtomRange, "imports": g.Imports}}
	}
	sp.KnownMatch = func(kf *known.File, p *progeng.Prog, v *progeng.Verdict) string { return "" }
	return sp
}

func Run(tier string, seed int64, workers int) int { return progeng.Run(Spec(tier, seed, workers)) }

func Replay(rp *evidence.Replay) int { return progeng.Replay(Spec("quick", rp.Seed, 1), rp) }

// intLists reads a list of int lists from program metadata, whether it is still typed (fresh from the
// generator) or went through JSON (replay file).
func intLists(v any) [][]int {
	var out [][]int
	switch l := v.(type) {
	case [][]int:
		return l
	case [][2]int:
		for _, x := range l {
			out = append(out, []int{x[0], x[1]})
		}
	case []any:
		for _, x := range l {
			var row []int
			if xs, ok := x.([]any); ok {
				for _, y := range xs {
					if f, ok := y.(float64); ok {
						row = append(row, int(f))
					}
				}
			}
			out = append(out, row)
		}
	}
	return out
}
