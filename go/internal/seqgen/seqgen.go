// Package seqgen generates terminating, single-goroutine-at-a-time Go programs whose syntactic variety is
// the point: every statement form, with yield atoms (y.Y / y.B / y.S, see workloads/seqlib/y) in every
// expression position, reached through every kind of call. The same program is built in D form (atoms are
// plain functions) and R form (atoms may suspend); C02 demands identical behaviour under every tape.
//
// Rules that keep programs inside the sound subset (DESIGN.md Appendix C): output only via println of ints;
// int arithmetic stays small; indices are reduced into range; every generated function recovers its own
// panics; loops have small constant bounds; generated functions call only lower-numbered ones.
package seqgen

import (
	"fmt"
	"sort"
	"strings"

	"verif/internal/rng"
)

type Opts struct {
	Funcs     int
	Stmts     int  // statements per function body (top level)
	Depth     int  // nesting depth of blocks
	Clean     bool // avoid the shapes of known findings (F6: static call before dynamic call; F7: atom in a non-recovering deferred function while panicking)
	Unwind    bool // bias towards defer/panic/recover/Goexit forms (C08)
	Goroutine bool // allow the go-statement form
	Native    bool // the program is also compared with a native build: no dependence on map iteration order, no range over an array that the body mutates
	Goexit    bool // scenario functions run in their own goroutine, so runtime.Goexit may be used
	Where     bool // emit y.Where(id) markers and record their Go lines (C19)
	Scenarios bool // emit funcs.go + main_s.go (scenarios one after the other) + main_m.go (all concurrently, build tag multi)
	Weights   map[string]int
}

type Program struct {
	Files    map[string]string // relative path -> content (main package only; the y package is copied from workloads/seqlib)
	Atoms    int
	Features map[string]int
	Clean    bool
	Units    []Unit       // deletable statements of main.go (for minimisation), outermost first
	Wheres   map[int]int  // marker id -> 1-based line of main.go holding the y.Where(id) call
	WhereV   map[int]bool // markers placed in expression position (y.WhereV)
	WhereAlt map[int]int  // marker id -> second acceptable line (operands of select clauses)
}

// Unit is a statement of main.go given by its line range [From,To) and the statement form that produced it.
type Unit struct {
	From, To int
	Form     string
	Depth    int
}

type gen struct {
	r        *rng.R
	o        Opts
	b        strings.Builder
	ind      int
	atom     int
	feat     map[string]int
	fn       int // index of the function being generated
	calls    int // calls to other generated functions emitted in this function
	inLoop   int
	depth    int
	static   bool // a static observable call was emitted earlier in the current statement
	noAtoms  int  // >0: atoms are not allowed here (clean-mode F7 rule)
	panicky  bool // current function may panic
	label    int
	tmp      int
	lines    int
	units    []Unit
	wheres   map[int]int
	wherev   map[int]bool
	wherealt map[int]int
	unnamed  bool
	inDefer  int
	noDyn    int
	noStatic int
}

func (g *gen) line(f string, a ...any) {
	g.b.WriteString(strings.Repeat("\t", g.ind))
	fmt.Fprintf(&g.b, f, a...)
	g.b.WriteByte('\n')
	g.lines++
}

func (g *gen) f(name string) { g.feat[name]++ }

func (g *gen) nextAtom() int { g.atom++; return g.atom }

func (g *gen) w(name string, def int) int {
	if v, ok := g.o.Weights[name]; ok {
		return v
	}
	return def
}

// ---------------------------------------------------------------- expressions

var intVars = []string{"a", "b", "c", "p"}

// atomCall returns a call expression of type int that reaches a yield atom through some kind of call.
func (g *gen) atomCall() string {
	if g.noAtoms > 0 {
		return fmt.Sprint(1 + g.r.Intn(9))
	}
	k := g.nextAtom()
	dynamic := g.r.Chance(g.w("dynamic", 35), 100)
	if g.o.Clean && g.static {
		dynamic = false // F6 shape: a dynamic call after an observable static call in one statement
	}
	if g.noDyn > 0 {
		dynamic = false
	}
	if dynamic {
		g.f("call:dynamic")
		switch g.r.Intn(7) {
		case 6:
			// a bodyless (go:linkname) function is always treated as blocking, like a dynamic call
			g.f("call:linkname")
			return fmt.Sprintf("lk(%d)", k)
		case 0:
			g.f("call:interface-ptr-method")
			return fmt.Sprintf("i.PM(%d)", k)
		case 1:
			g.f("call:interface-value-method")
			return fmt.Sprintf("i.VM(%d)", k)
		case 2:
			g.f("call:func-value")
			return fmt.Sprintf("fv(%d)", k)
		case 3:
			g.f("call:method-value")
			return fmt.Sprintf("mv(%d)", k)
		case 4:
			g.f("call:pkg-func-var")
			return fmt.Sprintf("y.FV(%d)", k)
		default:
			g.f("call:func-param")
			return fmt.Sprintf("y.Apply(fv, %d)", k)
		}
	}
	g.static = true
	g.f("call:static")
	switch g.r.Intn(13) {
	case 0, 1:
		g.f("call:other-package")
		return fmt.Sprintf("y.Y(%d)", k)
	case 2:
		g.f("call:pointer-method")
		return fmt.Sprintf("t.PM(%d)", k)
	case 3:
		g.f("call:value-method")
		return fmt.Sprintf("tv.VM(%d)", k)
	case 4:
		g.f("call:promoted-method")
		return fmt.Sprintf("e.PM(%d)", k)
	case 5:
		g.f("call:promoted-value-method")
		return fmt.Sprintf("e.VM(%d)", k)
	case 6:
		g.f("call:generic-func")
		return fmt.Sprintf("y.G[int](%d, %d)", g.r.Intn(9), k)
	case 7:
		g.f("call:generic-method")
		return fmt.Sprintf("bx.Get(%d)", k)
	case 8:
		g.f("call:generic-value-method")
		return fmt.Sprintf("bv.Val(%d)", k)
	case 9:
		g.f("call:method-expr")
		return fmt.Sprintf("(*y.T).PM(t, %d)", k)
	case 10:
		g.f("call:method-expr-value")
		return fmt.Sprintf("y.T.VM(tv, %d)", k)
	case 11:
		g.f("call:deep-chain")
		return fmt.Sprintf("y.Deep(%d, %d)", 1+g.r.Intn(4), k)
	default:
		g.f("call:local-wrapper")
		return fmt.Sprintf("ly(%d)", k)
	}
}

func (g *gen) intExpr(d int) string {
	if d <= 0 {
		switch g.r.Intn(4) {
		case 0:
			return fmt.Sprint(g.r.Intn(10))
		case 1:
			return intVars[g.r.Intn(len(intVars))]
		default:
			return g.atomCall()
		}
	}
	switch g.r.Intn(16) {
	case 0, 1:
		return fmt.Sprintf("(%s + %s)", g.intExpr(d-1), g.intExpr(d-1))
	case 2:
		return fmt.Sprintf("(%s - %s)", g.intExpr(d-1), g.intExpr(d-1))
	case 3:
		return fmt.Sprintf("(%s * %d)", g.intExpr(d-1), 2+g.r.Intn(3))
	case 4:
		g.f("expr:index-array")
		return fmt.Sprintf("arr[ix(%s, 3)]", g.intExpr(d-1))
	case 5:
		g.f("expr:index-slice")
		return fmt.Sprintf("sl[ix(%s, len(sl))]", g.intExpr(d-1))
	case 6:
		g.f("expr:map-lookup")
		return fmt.Sprintf("m[ks[ix(%s, 3)]]", g.intExpr(d-1))
	case 7:
		g.f("expr:field")
		return []string{"st.a", "ps.a", "st.b[1]", "ps.b[0]", "*pi"}[g.r.Intn(5)]
	case 8:
		g.f("expr:len-subslice")
		return fmt.Sprintf("len(sl[:ix(%s, len(sl))])", g.intExpr(d-1))
	case 9:
		// a generated function may or may not be blocking in the D build: for evaluation order it counts as a
		// dynamic call (not after an observable static call in clean mode) and as a static one afterwards
		if g.calls < 2 && g.fn > 0 && g.inLoop == 0 && g.inDefer == 0 && g.noStatic == 0 && g.noDyn == 0 && g.noAtoms == 0 && !(g.o.Clean && g.static) {
			g.calls++
			g.static = true
			g.f("call:generated-func")
			return fmt.Sprintf("f%d(%s)", g.r.Intn(g.fn), g.intExpr(d-1))
		}
		return g.atomCall()
	case 10:
		// the call of a function literal is compiled as a blocking call even in the D build: for evaluation
		// order it counts as a dynamic call (not after an observable static call in clean mode)
		if g.noAtoms > 0 || g.noDyn > 0 || (g.o.Clean && (g.noStatic > 0 || g.static)) {
			return g.intExpr(d - 1)
		}
		g.f("expr:closure-call")
		body := g.intExprNoDyn(d - 1)
		g.static = true
		return fmt.Sprintf("func() int { return %s }()", body)
	case 11:
		g.f("expr:composite-literal")
		return fmt.Sprintf("(S{a: %s, b: [2]int{%s, 1}}).a", g.intExpr(d-1), g.intExpr(d-1))
	case 12:
		g.f("expr:cond-func")
		return fmt.Sprintf("sel3(%s, %s, %s)", g.boolExpr(d-1), g.intExpr(d-1), g.intExpr(d-1))
	default:
		return g.atomCall()
	}
}

// intExprNoDyn generates an expression without dynamic calls (used inside closure bodies in clean mode,
// where the closure is a static call as seen from the enclosing statement).
func (g *gen) intExprNoDyn(d int) string {
	g.noDyn++
	defer func() { g.noDyn-- }()
	return g.intExpr(d)
}

func (g *gen) boolExpr(d int) string {
	if d <= 0 {
		switch g.r.Intn(3) {
		case 0:
			return fmt.Sprintf("%s < %d", intVars[g.r.Intn(len(intVars))], g.r.Intn(12))
		case 1:
			if g.noAtoms > 0 {
				return "a%2 == 0"
			}
			k := g.nextAtom()
			g.static = true
			g.f("atom:bool")
			return fmt.Sprintf("y.B(%d, %s%%2 == 0)", k, intVars[g.r.Intn(len(intVars))])
		default:
			return fmt.Sprintf("%s%%3 != 1", g.intExpr(0))
		}
	}
	switch g.r.Intn(6) {
	case 0:
		g.f("expr:and")
		return fmt.Sprintf("(%s && %s)", g.boolExpr(d-1), g.boolExpr(d-1))
	case 1:
		g.f("expr:or")
		return fmt.Sprintf("(%s || %s)", g.boolExpr(d-1), g.boolExpr(d-1))
	case 2:
		return fmt.Sprintf("!(%s)", g.boolExpr(d-1))
	case 3:
		return fmt.Sprintf("%s < %s", g.intExpr(d-1), g.intExpr(d-1))
	case 4:
		return fmt.Sprintf("%s == %s", g.intExpr(d-1), g.intExpr(d-1))
	default:
		return g.boolExpr(0)
	}
}

func (g *gen) strExpr() string {
	if g.noAtoms > 0 {
		return `"q"`
	}
	k := g.nextAtom()
	g.static = true
	g.f("atom:string")
	return fmt.Sprintf("y.S(%d, %q)", k, []string{"x", "yz", "é"}[g.r.Intn(3)])
}

// stmtStart resets the per-statement evaluation-order tracking.
func (g *gen) stmtStart() { g.static = false }

func (g *gen) lhs() string { return []string{"a", "b", "c"}[g.r.Intn(3)] }

func (g *gen) mod(e string) string { return fmt.Sprintf("(%s) %% 997", e) }

// ---------------------------------------------------------------- statements

func (g *gen) block(n int) {
	g.depth++
	for i := 0; i < n; i++ {
		g.stmt()
	}
	g.depth--
}

func (g *gen) stmt() {
	g.stmtStart()
	deep := g.depth < g.o.Depth
	type form struct {
		name string
		w    int
		ok   bool
		fn   func()
	}
	forms := []form{
		{"assign", 10, true, g.sAssign},
		{"opassign", 4, true, g.sOpAssign},
		{"tuple", 3, true, g.sTuple},
		{"trace", 6, true, g.sTrace},
		{"if", 6, deep, g.sIf},
		{"for", 5, deep && g.inLoop < 2, g.sFor},
		{"switch", 4, deep, g.sSwitch},
		{"tagless", 3, deep, g.sTagless},
		{"range", 5, deep && g.inLoop < 2, g.sRange},
		{"labelled", 2, deep && g.inLoop == 0, g.sLabelled},
		{"goto", 2, g.inLoop == 0 && g.inDefer == 0, g.sGoto},
		{"defer", 4, g.inLoop == 0 && g.inDefer == 0, g.sDefer},
		{"panic", 3, g.panicky && g.inDefer == 0, g.sPanic},
		{"chan", 4, true, g.sChan},
		{"select", 3, true, g.sSelect},
		{"go", 2, g.o.Goroutine && g.inDefer == 0 && g.noAtoms == 0, g.sGo},
		{"composite", 4, true, g.sComposite},
		{"closures", 3, deep && g.inLoop == 0, g.sClosures},
		{"typeswitch", 3, deep, g.sTypeSwitch},
		{"string", 3, true, g.sString},
		{"structcopy", 3, true, g.sStructCopy},
		{"shadow", 3, deep, g.sShadow},
		{"incdec", 2, true, g.sIncDec},
		{"tuplecall", 3, true, g.sTupleCall},
		{"variadic", 3, true, g.sVariadic},
		{"deferforms", 3, g.inLoop == 0 && g.inDefer == 0, g.sDeferForms},
		{"mapmut", 3, true, g.sMapMut},
		{"append", 3, true, g.sAppend},
		{"pointer", 3, true, g.sPointer},
		{"ptrrecv", 4, true, g.sNamedPtrRecv},
		{"early", 1, g.depth > 1 && g.inDefer == 0 && g.inLoop > 0, g.sEarlyReturn},
		{"goexit", 2, g.o.Goexit && g.inDefer == 0, g.sGoexit},
		{"where", 20, g.o.Where, g.sWhere},
		{"nestedpanic", 3, g.o.Unwind && g.inLoop == 0 && g.inDefer == 0, g.sNestedPanic},
		{"repanic", 3, g.o.Unwind && g.panicky && g.inLoop == 0 && g.inDefer == 0, g.sRepanic},
		{"indirectrecover", 2, g.o.Unwind && g.inLoop == 0 && g.inDefer == 0, g.sIndirectRecover},
		{"deferloop", 2, g.o.Unwind && deep && g.inLoop == 0 && g.inDefer == 0, g.sDeferLoop},
		{"replacepanic", 3, g.o.Unwind && g.panicky && g.inLoop == 0 && g.inDefer == 0, g.sReplacePanic},
	}
	total := 0
	for i := range forms {
		forms[i].w = g.w("stmt:"+forms[i].name, forms[i].w)
		if g.o.Unwind && (forms[i].name == "defer" || forms[i].name == "panic") {
			forms[i].w *= 4
		}
		if forms[i].ok {
			total += forms[i].w
		}
	}
	v := g.r.Intn(total)
	for _, f := range forms {
		if !f.ok {
			continue
		}
		if v < f.w {
			g.f("stmt:" + f.name)
			from := g.lines
			f.fn()
			// keep the accumulators small: native int is 64 bits wide, GopherJS's is 32
			g.line("a, b, c = rd(a), rd(b), rd(c)")
			g.units = append(g.units, Unit{From: from, To: g.lines, Form: f.name, Depth: g.depth + g.inDefer})
			return
		}
		v -= f.w
	}
}

func (g *gen) sAssign() { g.line("%s = %s", g.lhs(), g.mod(g.intExpr(2))) }
func (g *gen) sOpAssign() {
	g.line("%s %s %s", g.lhs(), []string{"+=", "-=", "^="}[g.r.Intn(3)], g.mod(g.intExpr(1)))
}
func (g *gen) sTuple() {
	x, yv := g.lhs(), g.lhs()
	for yv == x {
		yv = g.lhs()
	}
	g.line("%s, %s = %s, %s", x, yv, g.mod(g.intExpr(1)), g.mod(g.intExpr(1)))
}
func (g *gen) sTrace() { g.line("y.Tr(%s)", g.mod(g.intExpr(2))) }
func (g *gen) sIncDec() {
	g.line("%s%s", []string{"a", "b", "st.a", "arr[1]", "(*pi)"}[g.r.Intn(5)], []string{"++", "--"}[g.r.Intn(2)])
}

// sTupleCall: multi-value results assigned through a temporary tuple, with atoms in the arguments.
func (g *gen) sTupleCall() {
	g.f("tuple:multi-value-call")
	switch g.r.Intn(3) {
	case 0:
		g.line("a, b = two(%s, %s)", g.mod(g.intExpr(1)), g.mod(g.intExpr(0)))
	case 1:
		g.tmp++
		g.line("u%d, w%d := two(%s, c)", g.tmp, g.tmp, g.mod(g.intExpr(1)))
		g.line("c += u%d - w%d", g.tmp, g.tmp)
	default:
		g.line("arr[ix(a, 3)], st.a = two(%s, %s)", g.mod(g.intExpr(0)), g.mod(g.intExpr(0)))
	}
}

// sVariadic: variadic calls whose arguments are regrouped into a slice; with an existing slice and `...`.
func (g *gen) sVariadic() {
	g.f("call:variadic")
	if g.r.Bool() {
		g.line("a += sum3(%s, %s, %s)", g.mod(g.intExpr(0)), g.mod(g.intExpr(1)), g.mod(g.intExpr(0)))
	} else {
		g.line("b += sum3(%s, sl[:ix(%s, len(sl))]...)", g.mod(g.intExpr(0)), g.intExpr(0))
	}
}

// sDeferForms: deferred builtins, deferred method values, receivers and arguments fixed at the defer statement.
func (g *gen) sDeferForms() {
	g.tmp++
	switch g.r.Intn(5) {
	case 0:
		g.f("defer:builtin-close-delete")
		g.line("dc%d := make(chan int, 1)", g.tmp)
		g.line("dc%d <- %s", g.tmp, g.mod(g.intExpr(0)))
		g.line("defer close(dc%d)", g.tmp)
		g.line("defer delete(m, ks[ix(%s, 3)])", g.intExpr(0))
	case 1:
		g.f("defer:value-receiver-fixed-at-defer")
		g.line("dt%d := y.T{N: %d}", g.tmp, 1+g.r.Intn(5))
		if g.noAtoms > 0 {
			g.line("defer y.Tr(dt%d.N)", g.tmp)
		} else {
			g.line("defer dt%d.VM(%d)", g.tmp, g.nextAtom())
		}
		g.line("dt%d.N = 50", g.tmp)
	case 2:
		g.f("defer:pointer-receiver-sees-later-change")
		g.line("dp%d := &y.T{N: %d}", g.tmp, 1+g.r.Intn(5))
		g.line("defer func() { r += dp%d.N }()", g.tmp)
		if g.noAtoms == 0 {
			g.line("defer dp%d.PM(%d)", g.tmp, g.nextAtom())
		}
		g.line("dp%d.N += 7", g.tmp)
	case 3:
		g.f("defer:method-value")
		if g.noAtoms == 0 {
			g.line("defer mv(%d)", g.nextAtom())
		} else {
			g.line("defer y.Tr(%d)", g.r.Intn(40))
		}
	default:
		g.f("defer:argument-variable-changed-later")
		g.line("dv%d := %s", g.tmp, g.mod(g.intExpr(0)))
		g.line("defer func(q int) { r = rd(r + q) }(dv%d)", g.tmp)
		g.line("dv%d += 1000", g.tmp)
		g.line("_ = dv%d", g.tmp)
	}
}

func (g *gen) sIf() {
	if g.r.Chance(1, 3) {
		g.tmp++
		v := fmt.Sprintf("q%d", g.tmp)
		g.line("if %s := %s; %s%%2 == 0 {", v, g.mod(g.intExpr(1)), v)
	} else {
		g.line("if %s {", g.boolExpr(2))
	}
	g.ind++
	g.block(1 + g.r.Intn(2))
	g.ind--
	if g.r.Chance(1, 2) {
		g.stmtStart()
		g.line("} else if %s {", g.boolExpr(1))
		g.ind++
		g.block(1)
		g.ind--
	}
	if g.r.Chance(1, 2) {
		g.line("} else {")
		g.ind++
		g.block(1)
		g.ind--
	}
	g.line("}")
}

func (g *gen) sFor() {
	g.tmp++
	iv := fmt.Sprintf("i%d", g.tmp)
	g.inLoop++
	switch g.r.Intn(3) {
	case 0:
		g.line("for %s := 0; %s < %d; %s++ {", iv, iv, 1+g.r.Intn(3), iv)
	case 1:
		// condition and post statement with atoms, evaluated on every iteration
		g.f("for:atom-in-cond-and-post")
		cond := g.intExpr(0)
		g.stmtStart()
		post := g.intExpr(0)
		g.line("for %s := 0; %s < ix(%s, 3)+1; %s += 1 + ix(%s, 2) {", iv, iv, cond, iv, post)
	default:
		g.f("for:cond-only")
		g.line("for %s := 0; %s < 3 && %s; %s++ {", iv, iv, g.boolExpr(1), iv)
	}
	g.ind++
	g.line("a += %s", iv)
	g.block(1 + g.r.Intn(2))
	if g.r.Chance(1, 3) {
		g.stmtStart()
		g.line("if %s {", g.boolExpr(1))
		g.line("\t%s", []string{"break", "continue"}[g.r.Intn(2)])
		g.line("}")
		g.stmtStart()
		g.line("b += %s", g.mod(g.intExpr(1)))
	}
	g.ind--
	g.line("}")
	g.inLoop--
}

func (g *gen) sLabelled() {
	g.label++
	l := fmt.Sprintf("L%d", g.label)
	if g.label == 1 && g.r.Chance(1, 3) {
		// a Go label may have any name, also one the emitted JavaScript uses for its own purposes
		g.f("label:named-s")
		l = "s"
	}
	g.tmp++
	i1, i2 := fmt.Sprintf("i%d", g.tmp), fmt.Sprintf("j%d", g.tmp)
	g.inLoop += 2
	g.line("%s:", l)
	g.line("for %s := 0; %s < 3; %s++ {", i1, i1, i1)
	g.ind++
	g.line("for %s := 0; %s < 3; %s++ {", i2, i2, i2)
	g.ind++
	g.line("if %s+%s == %s%%4 {", i1, i2, g.intExpr(0))
	g.line("\tcontinue %s", l)
	g.line("}")
	g.stmtStart()
	g.line("if %s {", g.boolExpr(1))
	g.line("\tbreak %s", l)
	g.line("}")
	g.block(1)
	g.ind--
	g.line("}")
	g.block(1)
	g.ind--
	g.line("}")
	g.inLoop -= 2
}

func (g *gen) sGoto() {
	g.label++
	l := fmt.Sprintf("G%d", g.label)
	g.tmp++
	n := fmt.Sprintf("n%d", g.tmp)
	g.line("%s := 0", n)
	g.line("_ = %s", n)
	g.line("%s:", l)
	g.line("%s++", n)
	g.stmtStart()
	g.line("c += %s", g.mod(g.intExpr(1)))
	g.line("if %s < %d {", n, 2+g.r.Intn(2))
	g.line("\tgoto %s", l)
	g.line("}")
}

func (g *gen) sSwitch() {
	g.line("switch %s {", g.mod(g.intExpr(1)))
	n := 2 + g.r.Intn(2)
	for i := 0; i < n; i++ {
		g.stmtStart()
		if g.r.Chance(1, 2) {
			g.line("case %s + zero(), %s + zero():", g.mod(g.intExpr(0)), g.mod(g.intExpr(0)))
		} else {
			g.line("case %s + zero():", g.mod(g.intExpr(1)))
		}
		g.ind++
		g.block(1)
		if i < n-1 && g.r.Chance(1, 3) {
			g.f("switch:fallthrough")
			g.line("fallthrough")
		}
		g.ind--
	}
	g.line("default:")
	g.ind++
	g.block(1)
	g.ind--
	g.line("}")
}

func (g *gen) sTagless() {
	g.line("switch {")
	n := 2 + g.r.Intn(2)
	for i := 0; i < n; i++ {
		g.stmtStart()
		g.line("case %s:", g.boolExpr(1))
		g.ind++
		g.block(1)
		if g.inLoop > 0 && g.r.Chance(1, 4) {
			g.line("break")
		}
		g.ind--
	}
	g.line("default:")
	g.ind++
	g.block(1)
	g.ind--
	g.line("}")
}

func (g *gen) sRange() {
	g.tmp++
	k, v := fmt.Sprintf("k%d", g.tmp), fmt.Sprintf("v%d", g.tmp)
	g.inLoop++
	switch g.r.Intn(6) {
	case 0:
		g.f("range:slice-expr-with-atom")
		g.line("for %s, %s := range sl[:ix(%s, len(sl))+1] {", k, v, g.intExpr(1))
		g.ind++
		g.line("a += %s*3 + %s", k, v)
	case 1:
		g.f("range:array-copy")
		if g.o.Native {
			// GopherJS ranges over the array itself when the body mutates it (a known translation deviation
			// outside the claimed properties): range over an explicit copy in native-compared programs
			g.line("arc%d := arr", g.tmp)
			g.line("for %s, %s := range arc%d {", k, v, g.tmp)
		} else {
			g.line("for %s, %s := range arr {", k, v)
		}
		g.ind++
		g.line("b += %s + %s", k, v)
	case 2:
		if g.o.Native {
			// iteration order of a map is unspecified: commutative accumulation only, no nested statements
			g.f("range:map-commutative")
			g.line("for %s, %s := range m {", k, v)
			g.line("\tc += len(%s) + %s", k, v)
			g.line("}")
			g.inLoop--
			return
		}
		g.f("range:map-with-mutation")
		g.line("for %s, %s := range m {", k, v)
		g.ind++
		g.line("c += len(%s) + %s", k, v)
		g.stmtStart()
		g.line("if %s {", g.boolExpr(1))
		g.line("\tdelete(m, ks[ix(%s, 3)])", g.intExpr(0))
		g.line("} else if len(m) < 6 {")
		g.line("\tm[ks[ix(%s, 3)]+\"+\"] = %s", g.intExpr(0), g.mod(g.intExpr(0)))
		g.line("}")
	case 3:
		g.f("range:string")
		g.line("for %s, %s := range %s + \"aé\" {", k, v, g.strExpr())
		g.ind++
		g.line("a += %s + int(%s)%%7", k, v)
	case 4:
		g.f("range:channel")
		rc := fmt.Sprintf("rc%d", g.tmp)
		g.line("%s := make(chan int, 3)", rc)
		g.line("%s <- %s", rc, g.mod(g.intExpr(1)))
		g.stmtStart()
		g.line("%s <- %s", rc, g.mod(g.intExpr(1)))
		g.line("close(%s)", rc)
		g.line("for %s := range %s {", v, rc)
		g.ind++
		g.line("%s := 0", k)
		g.line("b += %s + %s", k, v)
	default:
		g.f("range:int-keys-only")
		g.line("for %s := range sl {", k)
		g.ind++
		g.line("%s := %s", v, k)
		g.line("c += %s", v)
	}
	g.block(1)
	g.ind--
	g.line("}")
	g.inLoop--
}

func (g *gen) sDefer() {
	switch g.r.Intn(4) {
	case 0:
		// arguments evaluated at the defer statement; body runs at return
		g.f("defer:args-with-atoms")
		arg := g.mod(g.intExpr(1))
		g.line("defer func(q int) {")
		g.ind++
		g.inDefer++
		g.deferBody(false)
		g.line("r += q")
		g.inDefer--
		g.ind--
		g.line("}(%s)", arg)
	case 1:
		g.f("defer:recovering")
		g.line("defer func() {")
		g.ind++
		g.inDefer++
		g.line("if x := recover(); x != nil {")
		g.ind++
		g.line("r += 100 + pv(x)")
		g.deferBody(true)
		g.ind--
		g.line("}")
		g.deferBody(true)
		g.inDefer--
		g.ind--
		g.line("}()")
	case 2:
		g.f("defer:method-call")
		if g.noAtoms > 0 {
			g.line("defer y.Tr(%d)", g.r.Intn(50))
		} else {
			g.line("defer t.PM(%d)", g.nextAtom())
		}
	default:
		g.f("defer:named-result")
		g.line("defer func() {")
		g.ind++
		g.inDefer++
		g.deferBody(false)
		g.line("r = r*2 + 1")
		g.inDefer--
		g.ind--
		g.line("}()")
	}
}

// deferBody emits statements inside a deferred closure. recovered: a recover() call precedes them.
func (g *gen) deferBody(recovered bool) {
	restrict := false // the F7 shape (suspension inside a non-recovering deferred call while a panic propagates) is fixed: generated in every mode
	if g.panicky && !recovered {
		g.f("defer:atom-while-maybe-panicking")
	}
	n := 1 + g.r.Intn(2)
	g.depth += 2
	for i := 0; i < n; i++ {
		g.stmt()
	}
	g.depth -= 2
	if restrict {
		g.noAtoms--
	}
}

func (g *gen) sPanic() {
	g.stmtStart()
	switch g.r.Intn(10) {
	case 0:
		g.f("panic:explicit-int")
		g.line("if %s {", g.boolExpr(1))
		g.line("\tpanic(%s)", g.mod(g.intExpr(1)))
		g.line("}")
	case 1:
		g.f("panic:index")
		g.line("if %s {", g.boolExpr(1))
		g.line("\ta += sl[len(sl)+%s]", "ix(a, 2)")
		g.line("}")
	case 2:
		g.f("panic:nil-map")
		g.line("if %s {", g.boolExpr(1))
		g.line("\tvar nm map[string]int")
		g.line("\tnm[\"x\"] = 1")
		g.line("}")
	case 3:
		g.f("panic:divide")
		g.line("if %s {", g.boolExpr(1))
		g.line("\tb = a / zero()")
		g.line("}")
	case 4:
		g.f("panic:string-value")
		g.line("if %s {", g.boolExpr(1))
		g.line("\tpanic(\"boom\" + ks[ix(a, 3)])")
		g.line("}")
	case 5:
		g.f("panic:error-value")
		g.line("if %s {", g.boolExpr(1))
		g.line("\tpanic(myErr{%s})", g.mod(g.intExpr(0)))
		g.line("}")
	case 6:
		g.f("panic:nil-pointer")
		g.line("if %s {", g.boolExpr(1))
		g.line("\tvar np *S")
		g.line("\ta = np.a")
		g.line("}")
	case 7:
		g.f("panic:failed-assertion")
		g.line("if %s {", g.boolExpr(1))
		g.line("\tvar ai interface{} = \"str\"")
		g.line("\ta = ai.(int)")
		g.line("}")
	case 8:
		g.f("panic:closed-channel")
		g.line("if %s {", g.boolExpr(1))
		g.line("\tcc := make(chan int, 1)")
		g.line("\tclose(cc)")
		g.line("\tcc <- 1")
		g.line("}")
	default:
		g.f("panic:slice-bounds")
		g.line("if %s {", g.boolExpr(1))
		g.line("\tsl = sl[:cap(sl)+1+ix(a, 2)]")
		g.line("}")
	}
}

// restricted runs fn with atoms disabled when, in clean mode, the code may execute inside a deferred call
// while a panic is propagating and before any recover (known shape F7).
func (g *gen) restricted(fn func()) {
	if g.panicky {
		g.f("defer:atom-while-maybe-panicking")
	}
	fn()
}

func (g *gen) sWhere() {
	id := len(g.wheres) + 1
	// here records the line of the Go statement the marker's caller frame must map to: the line written next
	here := func() { g.wheres[id] = g.lines + 1 }
	here()
	v := fmt.Sprintf("y.WhereV(%d)", id)
	g.tmp++
	w := fmt.Sprintf("w%d", g.tmp)
	form := func(name string) { g.f("where:" + name); g.wherev[id] = true }
	// inner is the body of the branching forms: with a yield atom in it the whole statement is compiled in its
	// resumable (flattened) form, in which all conditions are evaluated ahead of the branches
	inner := "a++"
	if g.r.Bool() {
		g.f("where:in-flattened-statement")
		inner = fmt.Sprintf("a += y.Y(%d)", g.nextAtom())
	}
	switch g.r.Intn(36) {
	case 0:
		// the marker sits in the tail of a statement, after a function literal
		form("after-function-literal")
		g.line("a = sel3(a > -99999, func() int { c++; return c }(), 0) + %s", v)
	case 1:
		form("call-argument-after-literal")
		g.line("b += y.Apply(func(q int) int { return q + 1 }, %s)", v)
	case 2:
		form("if-condition")
		g.line("if %s > 99999 {", v)
		g.line("\t" + inner)
		g.line("}")
	case 3:
		form("else-if-condition")
		g.line("if a < -99999 {")
		g.line("\tb++")
		here()
		g.line("} else if %s == 0 {", v)
		g.line("\t" + inner)
		g.line("}")
	case 4:
		form("switch-tag")
		g.line("switch %s {", v)
		g.line("case 0:")
		g.line("\t" + inner)
		g.line("}")
	case 5:
		form("case-expression")
		g.line("switch {")
		here()
		g.line("case a < -99999:")
		g.line("\tc++")
		here()
		g.line("case %s == 0:", v)
		g.line("\t" + inner)
		g.line("}")
	case 6:
		form("for-init")
		g.line("for %s := %s; %s < 1; %s++ {", w, v, w, w)
		g.line("\ta++")
		g.line("}")
	case 7:
		form("for-condition")
		g.line("for %s := 0; %s < 1+%s; %s++ {", w, w, v, w)
		g.line("\ta++")
		g.line("}")
	case 8:
		form("for-post")
		g.line("for %s := 0; %s < 1; %s += 1 + %s {", w, w, w, v)
		g.line("\ta++")
		g.line("}")
	case 9:
		form("return-named-result")
		g.line("a += func() (q int) { return %s }()", v)
	case 10:
		form("return-unnamed-result")
		g.line("a += func() int { return %s }()", v)
	case 11:
		form("send-statement")
		g.line("c%s := make(chan int, 1)", w)
		here()
		g.line("c%s <- %s", w, v)
		g.line("<-c%s", w)
	case 12:
		form("pointer-op-assign")
		g.line("*pi += %s", v)
	case 13:
		form("index-incdec")
		g.line("arr[%s]++", v)
	case 14:
		form("var-declaration")
		g.line("var %s = %s", w, v)
		g.line("_ = %s", w)
	case 15:
		form("defer-argument")
		g.line("defer func(int) {}(%s)", v)
	case 16:
		form("go-argument")
		g.line("go func(int) {}(%s)", v)
	case 17:
		form("range-expression")
		g.line("for _, %s := range []int{%s} {", w, v)
		g.line("\ta += %s", w)
		g.line("}")
	case 18:
		// the operands of every communication clause are evaluated when the select statement is entered: the
		// frame may be attributed to the select statement or to the clause
		form("select-send-operand")
		g.line("c%s := make(chan int, 1)", w)
		g.wherealt[id] = g.lines + 1
		g.line("select {")
		here()
		g.line("case c%s <- %s:", w, v)
		g.line("default:")
		g.line("}")
	case 19:
		form("tuple-assignment")
		g.line("a, b = b, a+%s", v)
	case 20:
		form("field-op-assign")
		g.line("st.a += %s", v)
	case 21:
		form("map-op-assign")
		g.line("m[\"a\"] += %s", v)
	case 22:
		form("append-argument")
		g.line("_ = append(sl, %s)", v)
	case 23:
		form("type-switch-operand")
		g.line("switch interface{}(%s).(type) {", v)
		g.line("case int:")
		g.line("\tc++")
		g.line("}")
	case 24:
		form("labelled-for")
		g.line("L%s:", w)
		here()
		g.line("for %s := %s; %s < 2; %s++ {", w, v, w, w)
		g.line("\tcontinue L%s", w)
		g.line("}")
	case 25:
		form("if-init")
		g.line("if %s := %s; %s > 99999 {", w, v, w)
		g.line("\ta++")
		g.line("}")
	case 26:
		form("switch-init")
		g.line("switch %s := %s; {", w, v)
		g.line("case %s > 99999:", w)
		g.line("\ta++")
		g.line("}")
	case 27:
		// a statement spanning several lines: the frame belongs to the statement's first line
		form("second-line-of-statement")
		g.line("_ = sum3(a,")
		g.line("\t%s)", v)
	case 28:
		form("struct-pointer-field")
		g.line("ps.a += %s", v)
	case 29:
		form("slice-element-assign")
		g.line("sl[0] = sl[%s] + 1 - 1", v)
	default:
		g.line("y.Where(%d)", id)
	}
}

func (g *gen) sGoexit() {
	g.stmtStart()
	if g.r.Bool() {
		g.f("goexit:direct")
		g.line("if %s {", g.boolExpr(1))
		g.line("\truntime.Goexit()")
		g.line("}")
	} else {
		g.f("goexit:below-deferred-frame")
		g.line("gx(%s, %d)", g.boolExpr(1), g.r.Intn(50))
	}
}

func (g *gen) sNestedPanic() {
	// a deferred function that panics itself: replaces a panic in flight (or starts one during a normal
	// return); its own nested deferred call recovers whichever panic is current
	g.f("panic:nested-replaced")
	g.line("defer func() {")
	g.line("\tdefer func() {")
	g.line("\t\tif x := recover(); x != nil {")
	g.line("\t\t\tr = rd(r + 300 + pv(x))")
	g.line("\t\t}")
	g.line("\t}()")
	g.inDefer++
	g.restricted(func() {
		g.stmtStart()
		g.line("\tif %s {", g.boolExpr(1))
		g.line("\t\tpanic(%s)", g.mod(g.intExpr(1)))
		g.line("\t}")
	})
	g.inDefer--
	g.line("}()")
}

func (g *gen) sReplacePanic() {
	// a deferred call that panics without recovering: it replaces a panic in flight (which is thereby aborted)
	// or starts one during a normal return; an earlier-deferred call of this frame (or a caller) recovers it
	g.f("panic:replaces-panic-in-flight")
	g.line("defer func() {")
	g.inDefer++
	g.stmtStart()
	g.line("\tif %s {", g.boolExpr(1))
	g.line("\t\tpanic(%s)", g.mod(g.intExpr(0)))
	g.line("\t}")
	g.inDefer--
	g.line("}()")
}

func (g *gen) sRepanic() {
	g.f("panic:re-panic-after-recover")
	g.line("defer func() {")
	g.line("\tif x := recover(); x != nil {")
	g.inDefer++
	g.stmtStart()
	g.line("\t\ty.Tr(pv(x) + %s)", g.mod(g.intExpr(0)))
	g.inDefer--
	g.line("\t\tpanic(pv(x) + 1)")
	g.line("\t}")
	g.line("}()")
}

func (g *gen) sIndirectRecover() {
	if g.r.Bool() {
		g.f("recover:not-called-directly")
		g.line("defer func() { y.Tr(700 + rec2()) }()")
	} else {
		g.f("recover:deferred-function-itself")
		g.line("defer rec3(&r)")
	}
}

func (g *gen) sDeferLoop() {
	g.tmp++
	iv := fmt.Sprintf("i%d", g.tmp)
	g.f("defer:in-loop-lifo")
	g.line("for %s := 0; %s < %d; %s++ {", iv, iv, 2+g.r.Intn(2), iv)
	g.inDefer++
	g.inLoop++
	var arg string
	g.stmtStart()
	arg = g.mod(g.intExpr(0))
	g.line("\tdefer func(q int) { r = rd(r*3 + q + %s) }(%s + %s)", "c", iv, arg)
	g.inLoop--
	g.inDefer--
	g.line("}")
}

func (g *gen) sChan() {
	g.f("chan:send-recv-pair")
	if g.r.Chance(1, 3) {
		// the channel operand is itself a call that may suspend; it is evaluated before the value operand
		g.f("chan:send-with-call-as-channel-operand")
		g.line("y.G(ch, %d) <- %s", g.nextAtom(), g.mod(g.intExpr(1)))
	} else {
		g.line("ch <- %s", g.mod(g.intExpr(1)))
	}
	g.stmtStart()
	if g.r.Bool() {
		g.line("%s = <-ch", g.lhs())
	} else {
		g.tmp++
		g.line("w%d, ok%d := <-ch", g.tmp, g.tmp)
		g.line("if ok%d {", g.tmp)
		g.line("\tc += w%d", g.tmp)
		g.line("}")
	}
}

func (g *gen) sSelect() {
	g.tmp++
	switch g.r.Intn(4) {
	case 3:
		// the operands of the receive target are evaluated when the case is selected; they may suspend
		g.f("select:recv-into-indexed-target")
		g.line("ch <- %s", g.mod(g.intExpr(1)))
		g.stmtStart()
		g.line("select {")
		if g.r.Bool() {
			g.line("case arr[ix(%s, 3)] = <-ch:", g.atomCall())
		} else {
			g.line("case m[ks[ix(%s, 3)]] = <-ch:", g.atomCall())
		}
		g.line("\tc += arr[0] + len(m)")
		g.line("}")
	case 0:
		g.f("select:send-or-default")
		g.line("select {")
		if g.r.Chance(1, 3) {
			g.f("select:send-with-call-as-channel-operand")
			g.line("case y.G(ch2, %d) <- %s:", g.nextAtom(), g.mod(g.intExpr(1)))
		} else {
			g.line("case ch2 <- %s:", g.mod(g.intExpr(1)))
		}
		g.line("\ta++")
		g.line("default:")
		g.line("\ta--")
		g.line("}")
	case 1:
		g.f("select:recv-or-default")
		g.line("select {")
		g.line("case w%d := <-ch2:", g.tmp)
		g.line("\tb += w%d", g.tmp)
		g.line("default:")
		g.ind++
		g.block(1)
		g.ind--
		g.line("}")
	default:
		// exactly one ready case: nil channels never proceed
		g.f("select:single-ready-with-nil-cases")
		g.line("ch <- %s", g.mod(g.intExpr(1)))
		g.stmtStart()
		g.line("select {")
		g.line("case w%d := <-ch:", g.tmp)
		g.line("\tc += w%d", g.tmp)
		g.line("case nilch <- %s:", g.mod(g.intExpr(0)))
		g.line("\tc = -1")
		g.line("case <-nilch:")
		g.line("\tc = -2")
		g.line("}")
	}
}

func (g *gen) sGo() {
	g.tmp++
	dn := fmt.Sprintf("dn%d", g.tmp)
	g.f("go:with-arg-atoms")
	g.line("%s := make(chan int)", dn)
	arg := g.mod(g.intExpr(1))
	g.stmtStart()
	g.line("go func(q int) { %s <- q + %s }(%s)", dn, g.intExprNoDyn(0), arg)
	g.line("%s += <-%s", g.lhs(), dn)
}

func (g *gen) sComposite() {
	switch g.r.Intn(4) {
	case 0:
		g.f("composite:struct")
		g.line("st = S{a: %s, b: [2]int{%s, %s}, s: \"k\"}", g.mod(g.intExpr(1)), g.mod(g.intExpr(0)), g.mod(g.intExpr(0)))
	case 1:
		g.f("composite:slice")
		g.line("sl = []int{%s, %s, %s, 1}", g.mod(g.intExpr(1)), g.mod(g.intExpr(0)), g.mod(g.intExpr(0)))
	case 2:
		g.f("composite:map")
		g.line("m = map[string]int{\"a\": %s, \"b\": %s}", g.mod(g.intExpr(1)), g.mod(g.intExpr(0)))
	default:
		if g.o.Clean {
			g.f("composite:array-index-keys")
			g.line("arr = [3]int{0: %s, 2: %s}", g.mod(g.intExpr(1)), g.mod(g.intExpr(0)))
		} else {
			// known shape F6b: keyed elements out of index order are evaluated in index order in direct form
			g.f("composite:array-index-keys-out-of-order")
			g.line("arr = [3]int{2: %s, 0: %s}", g.mod(g.intExpr(1)), g.mod(g.intExpr(0)))
		}
	}
}

func (g *gen) sClosures() {
	g.tmp++
	fs, i, j := fmt.Sprintf("fs%d", g.tmp), fmt.Sprintf("i%d", g.tmp), fmt.Sprintf("j%d", g.tmp)
	g.f("closures:capture-loop-var")
	g.line("var %s []func() int", fs)
	g.line("for %s := 0; %s < 3; %s++ {", i, i, i)
	g.line("\t%s := %s", j, i)
	g.stmtStart()
	g.noStatic++
	g.line("\t%s = append(%s, func() int { c++; return %s*10 + %s })", fs, fs, j, g.intExprNoDyn(1))
	g.noStatic--
	g.line("}")
	g.line("for _, fn := range %s {", fs)
	g.line("\ta += fn()")
	g.line("}")
}

func (g *gen) sTypeSwitch() {
	g.tmp++
	x := fmt.Sprintf("x%d", g.tmp)
	g.f("typeswitch")
	switch g.r.Intn(3) {
	case 0:
		g.line("var %s interface{} = %s", x, g.mod(g.intExpr(1)))
	case 1:
		g.line("var %s interface{} = %s", x, g.strExpr())
	default:
		g.line("var %s interface{} = st", x)
	}
	g.line("switch z := %s.(type) {", x)
	g.line("case int:")
	g.ind++
	g.line("a += z")
	g.block(1)
	g.ind--
	g.line("case string:")
	g.ind++
	g.line("b += len(z)")
	g.block(1)
	g.ind--
	g.line("case S:")
	g.line("\tc += z.a")
	g.line("}")
	g.stmtStart()
	g.line("if z, ok := %s.(int); ok && %s {", x, g.boolExpr(0))
	g.line("\ta -= z")
	g.line("}")
}

func (g *gen) sString() {
	g.f("string:concat-index")
	g.line("s += %s", g.strExpr())
	g.stmtStart()
	g.line("if len(s) > 12 {")
	g.line("\ts = s[:ix(%s, 3)+1]", g.intExpr(0))
	g.line("}")
	g.line("a += len(s) + int(s[0])%%5")
}

func (g *gen) sStructCopy() {
	g.tmp++
	c := fmt.Sprintf("cp%d", g.tmp)
	g.f("value-semantics:struct-array-copy")
	g.line("%s := st", c)
	g.line("%s.b[0] = %s", c, g.mod(g.intExpr(1)))
	g.line("ps.a += %s.b[0] - st.b[0]", c)
	g.stmtStart()
	g.line("ar%d := arr", g.tmp)
	g.line("ar%d[ix(%s, 3)] = 9", g.tmp, g.intExpr(0))
	g.line("b += ar%d[0] + arr[0]", g.tmp)
}

func (g *gen) sShadow() {
	g.f("shadow:initialiser-with-atom")
	g.line("{")
	g.ind++
	g.line("a := a + %s", g.mod(g.intExpr(1)))
	g.line("b += a")
	g.block(1)
	g.ind--
	g.line("}")
}

func (g *gen) sMapMut() {
	g.f("map:assign-delete")
	g.line("m[ks[ix(%s, 3)]] = %s", g.intExpr(0), g.mod(g.intExpr(1)))
	if g.r.Bool() {
		g.stmtStart()
		g.line("delete(m, ks[ix(%s, 3)])", g.intExpr(0))
	}
	g.line("a += len(m)")
}

func (g *gen) sAppend() {
	g.f("slice:append-alias")
	g.line("sl = append(sl[:ix(%s, len(sl))], %s)", g.intExpr(0), g.mod(g.intExpr(1)))
	g.line("if len(sl) == 0 {")
	g.line("\tsl = []int{1, 2}")
	g.line("}")
}

func (g *gen) sPointer() {
	g.f("pointer:field-elem")
	switch g.r.Intn(3) {
	case 0:
		g.line("pi = &arr[ix(%s, 3)]", g.intExpr(0))
		g.line("*pi += 1")
	case 1:
		g.line("pi = &ps.b[ix(%s, 2)]", g.intExpr(0))
		g.line("*pi = %s", g.mod(g.intExpr(1)))
	default:
		g.line("pi = &st.a")
		g.line("*pi -= %s", g.mod(g.intExpr(0)))
	}
}

// sNamedPtrRecv: pointer-receiver methods on local variables of named non-struct types (implicit address-of), their
// method values, and the address of a parenthesised variable; the variable is read again after later suspensions.
func (g *gen) sNamedPtrRecv() {
	g.tmp++
	switch g.r.Intn(6) {
	case 0:
		g.f("ptrrecv:call-on-named-int")
		g.line("ni.Inc(%s)", g.mod(g.intExpr(1)))
	case 1:
		g.f("ptrrecv:suspending-callee")
		g.line("ni.IncY(%d)", g.nextAtom())
	case 2:
		g.f("ptrrecv:call-on-named-slice")
		g.line("stk.Push(%s)", g.mod(g.intExpr(1)))
	case 3:
		g.f("ptrrecv:method-value")
		g.line("mf%d := ni.IncY", g.tmp)
		g.stmtStart()
		g.line("mf%d(%d)", g.tmp, g.nextAtom())
	case 4:
		g.f("ptrrecv:address-of-parenthesised-variable")
		g.line("pp%d := &(c)", g.tmp)
		g.line("b += %s", g.mod(g.intExpr(1)))
		g.stmtStart()
		g.line("*pp%d += 1", g.tmp)
	default:
		g.f("ptrrecv:loop-post-statement")
		// (bounded by a second counter: on a broken tree the post statement may never advance the first)
		g.line("for w%d, q%d := NI(0), 0; w%d < 3 && q%d < 6; w%d.IncY(%d) {", g.tmp, g.tmp, g.tmp, g.tmp, g.tmp, g.nextAtom())
		g.line("\tq%d++", g.tmp)
		g.line("\ta++")
		g.line("}")
	}
	g.stmtStart()
	g.line("a += int(ni)%%13 + len(stk)")
}

func (g *gen) sEarlyReturn() {
	g.f("return:inside-loop")
	g.line("if %s {", g.boolExpr(1))
	g.stmtStart()
	g.line("\treturn %s", g.mod(g.intExpr(1)))
	g.line("}")
}

// ---------------------------------------------------------------- functions and program

func (g *gen) function(idx int) {
	g.fn = idx
	g.calls = 0
	g.tmp = 0
	g.label = 0
	g.panicky = g.r.Chance(g.w("panicky", 30), 100)
	if g.o.Unwind {
		g.panicky = g.r.Chance(70, 100)
	}
	if (g.o.Unwind && g.r.Chance(1, 4)) || (!g.o.Unwind && g.r.Chance(1, 5)) {
		// unnamed result: after a recovered panic the function returns the zero value; deferred closures can
		// not change what a completed return statement returns
		g.f("func:unnamed-result")
		g.unnamed = true
		g.line("func f%d(p int) int {", idx)
		g.ind++
		g.line("r := 0")
		g.line("_ = r")
	} else {
		g.unnamed = false
		g.line("func f%d(p int) (r int) {", idx)
		g.ind++
	}
	g.line("a, b, c := p, 1, 2")
	g.line("s := \"s\"")
	g.line("arr := [3]int{1, 2, 3}")
	g.line("sl := []int{4, 5, 6, 7}")
	g.line("m := map[string]int{\"a\": 1, \"b\": 2}")
	g.line("st := S{a: 1, b: [2]int{2, 3}}")
	g.line("ps := &st")
	g.line("pi := &arr[0]")
	g.line("t := &y.T{N: 1}")
	g.line("tv := y.T{N: 2}")
	g.line("e := y.E{T: y.T{N: 3}}")
	g.line("var i y.I = &y.T{N: 4}")
	g.line("fv := y.FV")
	g.line("mv := t.PM")
	g.line("bx := &y.Box[int]{V: 5}")
	g.line("bv := y.Box[int]{V: 6}")
	g.line("ch := make(chan int, 2)")
	g.line("ch2 := make(chan int, 2)")
	g.line("var nilch chan int")
	g.line("ni := NI(1)")
	g.line("stk := Stk{1}")
	g.line("_, _ = ni, stk")
	g.line("_, _, _, _, _, _, _, _, _, _ = a, b, c, s, arr, sl, m, st, ps, pi")
	g.line("_, _, _, _, _, _, _, _, _, _, _ = t, tv, e, i, fv, mv, bx, bv, ch, ch2, nilch")
	g.line("_ = runtime.NumGoroutine")
	if g.o.Where {
		g.line("a += größe.ÄÖÜäöüÄÖÜäöü + größe.ÄÖÜäöüÄÖÜäöü + größe.ÄÖÜäöüÄÖÜäöü - 3")
	}
	if g.panicky && g.o.Unwind && g.r.Chance(1, 3) {
		// the function does not recover its own panics, so a panic
		// propagates through the deferred calls of its callers, which may suspend while it is in flight
		g.f("func:leaky-panics-propagate")
		g.line("// leaky: panics propagate to the caller")
	} else if g.panicky {
		g.f("func:panicky")
		// the function recovers its own panics so that none crosses a function boundary
		from := g.lines
		g.units = append(g.units, Unit{From: from, To: from + 6, Form: "recoverprologue", Depth: 0})
		g.line("defer func() {")
		g.line("\tif x := recover(); x != nil {")
		g.line("\t\tr = 500 + pv(x) + a%%10")
		g.line("\t\ty.Tr(r)")
		g.line("\t}")
		g.line("}()")
	}
	g.depth = 0
	g.inLoop = 0
	n := g.o.Stmts/2 + g.r.Intn(g.o.Stmts/2+1)
	for k := 0; k < n; k++ {
		g.stmt()
	}
	g.stmtStart()
	g.line("r += (a + b*3 + c*5 + len(s) + arr[0] + arr[2] + len(sl) + len(m) + st.a + t.N + e.N + bx.V + int(ni)%%97 + len(stk)) %% 9973")
	g.stmtStart()
	if g.unnamed && g.r.Bool() {
		// a bare identifier as unnamed result: deferred calls that modify the variable afterwards must not
		// change what was returned
		g.f("return:bare-identifier-unnamed-result")
		g.line("r += %s", g.mod(g.intExpr(1)))
		g.line("return r")
	} else {
		g.line("return r + %s", g.mod(g.intExpr(1)))
	}
	g.ind--
	g.line("}")
	g.line("")
}

const prelude = `package main

import (
	"runtime"
	_ "unsafe"

	"seqprog/y"
)

type S struct {
	a int
	b [2]int
	s string
}

var ks = [3]string{"a", "b", "c"}

// Names outside ASCII survive minification: one UTF-8 byte is not one UTF-16 unit of a generated column.
type Größe struct{ ÄÖÜäöüÄÖÜäöü int }

var größe = Größe{ÄÖÜäöüÄÖÜäöü: 1}

// NI and Stk are named non-struct types with pointer-receiver methods: calling one on a local variable takes the
// variable's address implicitly.
type NI int

func (n *NI) Inc(k int)  { *n += NI(k % 5) }
func (n *NI) IncY(k int) { *n += NI(y.Y(k)%5) + 1 }

type Stk []int

func (s *Stk) Push(k int) {
	if len(*s) < 6 {
		*s = append(*s, k%7)
	}
}

//go:linkname lk seqprog/y.hidden
func lk(k int) int

func ly(k int) int { return y.Y(k) + 2 }

// ix reduces v into [0,n)
func ix(v, n int) int {
	if n <= 0 {
		return 0
	}
	v %= n
	if v < 0 {
		v += n
	}
	return v
}

func sel3(c bool, a, b int) int {
	if c {
		return a
	}
	return b
}

func zero() int { return 0 }

func two(x, w int) (int, int) { return (x + w) % 997, (x - w) % 997 }

func sum3(x int, rest ...int) int {
	for _, v := range rest {
		x = (x + v) % 9973
	}
	return x
}

func rd(v int) int { return v % 99991 }

type myErr struct{ code int }

func (e myErr) Error() string { return "myErr" }

// gx calls runtime.Goexit below a frame that has deferred calls.
func gx(c bool, k int) {
	defer y.Tr(800 + k)
	if c {
		runtime.Goexit()
	}
	y.Tr(850 + k)
}

// rec2 calls recover, but is not itself a deferred function: recover must return nil.
func rec2() int {
	if recover() != nil {
		return 1
	}
	return 0
}

// rec3 is deferred directly: its recover stops a panic.
func rec3(r *int) {
	if x := recover(); x != nil {
		*r = rd(*r + 400 + pv(x))
	}
}

// pv maps a recovered panic value to an int: explicit panics by value, run-time errors by class (and whether
// they implement runtime.Error).
func pv(x interface{}) int {
	switch v := x.(type) {
	case int:
		return v % 97
	case string:
		return 30 + len(v)
	case myErr:
		return 40 + v.code%50
	case runtime.Error:
		m := v.Error()
		switch {
		case has(m, "index out of range"):
			return 11
		case has(m, "nil map"):
			return 12
		case has(m, "divide by zero"):
			return 13
		case has(m, "nil pointer dereference"):
			return 14
		case has(m, "interface conversion"):
			return 15
		case has(m, "send on closed channel"):
			return 16
		case has(m, "slice bounds out of range"):
			return 18
		}
		return 19
	case error:
		return 21
	}
	return 17
}

func has(s, sub string) bool {
	for i := 0; i+len(sub) <= len(s); i++ {
		if s[i:i+len(sub)] == sub {
			return true
		}
	}
	return false
}

`

// Generate draws one program.
func Generate(r *rng.R, o Opts) *Program {
	g := &gen{r: r, o: o, feat: map[string]int{}, wheres: map[int]int{}, wherev: map[int]bool{}, wherealt: map[int]int{}}
	g.b.WriteString(prelude)
	g.lines = strings.Count(prelude, "\n")
	for i := 0; i < o.Funcs; i++ {
		g.function(i)
	}
	if o.Scenarios {
		return g.finishScenarios()
	}
	g.line("func main() {")
	g.ind++
	g.line("defer func() {")
	g.line("\tif x := recover(); x != nil {")
	g.line("\t\tprintln(\"ESCAPED\", pv(x))")
	g.line("\t}")
	g.line("}()")
	for i := 0; i < o.Funcs; i++ {
		g.line("y.Tr(f%d(%d))", i, g.r.Intn(7))
		g.units = append(g.units, Unit{From: g.lines - 1, To: g.lines, Form: "maincall", Depth: 0})
	}
	g.line("y.Tr(f%d(%d))", o.Funcs-1, 3+g.r.Intn(5))
	g.units = append(g.units, Unit{From: g.lines - 1, To: g.lines, Form: "maincall", Depth: 0})
	g.line("println(\"END\")")
	g.ind--
	g.line("}")
	sort.SliceStable(g.units, func(a, b int) bool {
		if g.units[a].Depth != g.units[b].Depth {
			return g.units[a].Depth < g.units[b].Depth
		}
		return g.units[a].To-g.units[a].From > g.units[b].To-g.units[b].From
	})
	return &Program{Files: map[string]string{"main.go": g.b.String(), "go.mod": "module seqprog\n\ngo 1.20\n"}, Atoms: g.atom, Features: g.feat, Clean: o.Clean, Units: g.units, Wheres: g.wheres, WhereV: g.wherev, WhereAlt: g.wherealt}
}

func (p *Program) FeatureList() []string {
	var l []string
	for k := range p.Features {
		l = append(l, k)
	}
	sort.Strings(l)
	return l
}

// finishScenarios emits the scenario runner and the two mains (C08): every generated function is a scenario
// run in its own goroutine, sequentially (main_s.go) or all at once (main_m.go, build tag multi).
func (g *gen) finishScenarios() *Program {
	o := g.o
	g.line("func runScenario(k int, done chan int) {")
	g.line("\ty.Cur = k")
	g.line("\tdefer func() {")
	g.line("\t\ty.Cur = k")
	g.line("\t\tif x := recover(); x != nil {")
	g.line("\t\t\tprintln(k, \"ESCAPED\", pv(x))")
	g.line("\t\t}")
	g.line("\t\tdone <- k")
	g.line("\t}()")
	g.line("\tswitch k {")
	for i := 0; i < o.Funcs; i++ {
		g.line("\tcase %d:", i)
		g.line("\t\ty.Tr(f%d(%d))", i, g.r.Intn(7))
	}
	g.line("\t}")
	g.line("\tprintln(k, \"FIN\")")
	g.line("}")
	sort.SliceStable(g.units, func(a, b int) bool {
		if g.units[a].Depth != g.units[b].Depth {
			return g.units[a].Depth < g.units[b].Depth
		}
		return g.units[a].To-g.units[a].From > g.units[b].To-g.units[b].From
	})
	mainS := fmt.Sprintf(`//go:build !multi

package main

func main() {
	done := make(chan int, %d)
	for k := 0; k < %d; k++ {
		go runScenario(k, done)
		<-done
	}
	println("END")
}
`, o.Funcs, o.Funcs)
	mainM := fmt.Sprintf(`//go:build multi

package main

func main() {
	done := make(chan int, %d)
	for k := 0; k < %d; k++ {
		go runScenario(k, done)
	}
	for k := 0; k < %d; k++ {
		<-done
	}
	println("END")
}
`, o.Funcs, o.Funcs, o.Funcs)
	return &Program{Files: map[string]string{"main.go": g.b.String(), "main_s.go": mainS, "main_m.go": mainM, "go.mod": "module seqprog\n\ngo 1.20\n"},
		Atoms: g.atom, Features: g.feat, Clean: o.Clean, Units: g.units, Wheres: g.wheres, WhereV: g.wherev, WhereAlt: g.wherealt}
}

// GenerateChains draws a program made of call chains main -> c1 -> ... -> ck -> yield atom, in which every link
// is a random kind of call (direct, invoked function literal, closure variable, method, interface method, method
// value, deferred closure, goroutine + join, generic function, call inside a loop or switch). Functions are
// declared in shuffled order, so callers often precede their callees. The chains are small on purpose: the
// blocking analysis has to carry "may suspend" from the atom up to main link by link, and in a small program
// every propagation round is quiet except for the link under test.
func GenerateChains(r *rng.R, nChains int) *Program {
	feat := map[string]int{}
	atom := 0
	var decls []string // top-level declarations, shuffled later
	var heads []string
	fn := 0
	for c := 0; c < nChains; c++ {
		depth := 2 + r.Intn(4)
		names := make([]string, depth)
		for i := range names {
			fn++
			names[i] = fmt.Sprintf("c%d", fn)
		}
		heads = append(heads, names[0])
		for i := 0; i < depth; i++ {
			var next string
			if i == depth-1 {
				atom++
				next = fmt.Sprintf("y.Y(%d) + p", atom)
			} else {
				next = fmt.Sprintf("%s(p + 1)", names[i+1])
			}
			n := names[i]
			id := 1000 + fn*10 + i
			var d string
			switch k := r.Intn(12); k {
			case 0:
				feat["link:direct"]++
				d = fmt.Sprintf("func %s(p int) (r int) {\n\ty.Tr(%d)\n\tr = %s\n\ty.Tr(r %% 997)\n\treturn r + 1\n}", n, id, next)
			case 1:
				feat["link:invoked-literal"]++
				d = fmt.Sprintf("func %s(p int) (r int) {\n\ty.Tr(%d)\n\tr = func() int { return %s }() + 2\n\ty.Tr(r %% 997)\n\treturn r\n}", n, id, next)
			case 2:
				feat["link:closure-variable"]++
				d = fmt.Sprintf("func %s(p int) (r int) {\n\tf := func(p int) int { return %s }\n\ty.Tr(%d)\n\tr = f(p) + 3\n\ty.Tr(r %% 997)\n\treturn r\n}", n, next, id)
			case 3:
				feat["link:value-method"]++
				d = fmt.Sprintf("type t%s struct{ k int }\n\nfunc (t t%s) M(p int) int { return %s + t.k }\n\nfunc %s(p int) (r int) {\n\ty.Tr(%d)\n\tr = t%s{k: 4}.M(p)\n\ty.Tr(r %% 997)\n\treturn r\n}", n, n, next, n, id, n)
			case 4:
				feat["link:interface-method"]++
				d = fmt.Sprintf("type t%s struct{ k int }\n\nfunc (t *t%s) M(p int) int { t.k++; return %s + t.k }\n\nfunc %s(p int) (r int) {\n\tvar i interface{ M(int) int } = &t%s{k: 5}\n\ty.Tr(%d)\n\tr = i.M(p)\n\ty.Tr(r %% 997)\n\treturn r\n}", n, n, next, n, n, id)
			case 5:
				feat["link:method-value"]++
				d = fmt.Sprintf("type t%s struct{ k int }\n\nfunc (t t%s) M(p int) int { return %s + t.k }\n\nfunc %s(p int) (r int) {\n\tmv := t%s{k: 6}.M\n\ty.Tr(%d)\n\tr = mv(p)\n\ty.Tr(r %% 997)\n\treturn r\n}", n, n, next, n, n, id)
			case 6:
				feat["link:deferred-closure"]++
				d = fmt.Sprintf("func %s(p int) (r int) {\n\tdefer func() {\n\t\tr += %s\n\t\ty.Tr(r %% 997)\n\t}()\n\ty.Tr(%d)\n\treturn 7\n}", n, next, id)
			case 7:
				feat["link:goroutine-join"]++
				d = fmt.Sprintf("func %s(p int) (r int) {\n\tc := make(chan int)\n\ty.Tr(%d)\n\tgo func() { c <- %s }()\n\tr = <-c + 8\n\ty.Tr(r %% 997)\n\treturn r\n}", n, id, next)
			case 8:
				feat["link:generic-function"]++
				d = fmt.Sprintf("func g%s[T any](x T, p int) int {\n\t_ = x\n\treturn %s\n}\n\nfunc %s(p int) (r int) {\n\ty.Tr(%d)\n\tr = g%s[string](\"s\", p) + 9\n\ty.Tr(r %% 997)\n\treturn r\n}", n, next, n, id, n)
			case 9:
				feat["link:inside-loop-and-switch"]++
				d = fmt.Sprintf("func %s(p int) (r int) {\n\ty.Tr(%d)\n\tfor i := 0; i < 2; i++ {\n\t\tswitch {\n\t\tcase i == 1:\n\t\t\tr += %s\n\t\tdefault:\n\t\t\tr += i\n\t\t}\n\t\ty.Tr(r %% 997)\n\t}\n\treturn r\n}", n, id, next)
			case 10:
				feat["link:function-value-parameter"]++
				d = fmt.Sprintf("func %s(p int) (r int) {\n\ty.Tr(%d)\n\tr = y.Apply(func(p int) int { return %s }, p) + 10\n\ty.Tr(r %% 997)\n\treturn r\n}", n, id, next)
			default:
				feat["link:argument-of-static-call"]++
				d = fmt.Sprintf("func %s(p int) (r int) {\n\ty.Tr(%d)\n\tr = sel3(p > -1, %s, 0) + 11\n\ty.Tr(r %% 997)\n\treturn r\n}", n, id, next)
			}
			decls = append(decls, d)
		}
	}
	// main first (callers before callees), then the chain functions in shuffled order
	var b strings.Builder
	b.WriteString(prelude)
	b.WriteString("func main() {\n")
	for _, h := range heads {
		fmt.Fprintf(&b, "\ty.Tr(%s(%d) %% 9973)\n", h, r.Intn(5))
	}
	b.WriteString("\tprintln(\"END\")\n}\n\n")
	for _, i := range r.Perm(len(decls)) {
		b.WriteString(decls[i] + "\n\n")
	}
	b.WriteString("var _ = runtime.NumGoroutine\n")
	return &Program{Files: map[string]string{"main.go": b.String(), "go.mod": "module seqprog\n\ngo 1.20\n"}, Atoms: atom, Features: feat, Clean: true}
}
