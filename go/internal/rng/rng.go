// Package rng is the harness's only source of randomness: a splitmix64-seeded xoshiro256** generator
// whose seed is derived by hashing (VERIF_SEED, property, case index, ...). Results therefore do not
// depend on worker count or on which worker handled a case.
package rng

import (
	"crypto/sha256"
	"encoding/binary"
	"fmt"
	"strings"
)

type R struct{ s [4]uint64 }

// Derive hashes its parts into a printable sub-seed.
func Derive(parts ...any) string {
	var sb strings.Builder
	for _, p := range parts {
		fmt.Fprintf(&sb, "%v\x1f", p)
	}
	h := sha256.Sum256([]byte(sb.String()))
	return fmt.Sprintf("%x", h[:12])
}

func New(parts ...any) *R {
	var sb strings.Builder
	for _, p := range parts {
		fmt.Fprintf(&sb, "%v\x1f", p)
	}
	h := sha256.Sum256([]byte(sb.String()))
	r := &R{}
	for i := 0; i < 4; i++ {
		r.s[i] = binary.LittleEndian.Uint64(h[i*8:])
	}
	if r.s[0]|r.s[1]|r.s[2]|r.s[3] == 0 {
		r.s[0] = 1
	}
	return r
}

func rotl(x uint64, k uint) uint64 { return (x << k) | (x >> (64 - k)) }

func (r *R) Uint64() uint64 {
	s := &r.s
	res := rotl(s[1]*5, 7) * 9
	t := s[1] << 17
	s[2] ^= s[0]
	s[3] ^= s[1]
	s[1] ^= s[2]
	s[0] ^= s[3]
	s[2] ^= t
	s[3] = rotl(s[3], 45)
	return res
}

// Intn returns a value in [0,n); n<=1 gives 0.
func (r *R) Intn(n int) int {
	if n <= 1 {
		return 0
	}
	return int(r.Uint64() % uint64(n))
}

func (r *R) Bool() bool { return r.Uint64()&1 == 1 }

// Chance is true with probability num/den.
func (r *R) Chance(num, den int) bool { return r.Intn(den) < num }

func (r *R) Float() float64 { return float64(r.Uint64()>>11) / (1 << 53) }

// Pick returns a weighted index.
func (r *R) Pick(weights ...int) int {
	t := 0
	for _, w := range weights {
		t += w
	}
	v := r.Intn(t)
	for i, w := range weights {
		if v < w {
			return i
		}
		v -= w
	}
	return 0
}

// Perm returns a permutation of 0..n-1.
func (r *R) Perm(n int) []int {
	p := make([]int, n)
	for i := range p {
		p[i] = i
	}
	for i := n - 1; i > 0; i-- {
		j := r.Intn(i + 1)
		p[i], p[j] = p[j], p[i]
	}
	return p
}
