// Package gharness runs World-G checks: a harness compiled into the GopherJS module through a build overlay
// (package govl), consisting of deterministic enumeration tests and of a rapid state-machine test that is run
// in several OS processes under seeds derived from VERIF_SEED. The harness reports through a JSON-lines file;
// this package turns that into VIOLATION lines, replay files and evidence.
package gharness

import (
	"bufio"
	"encoding/json"
	"fmt"
	"os"
	"os/exec"
	"path/filepath"
	"regexp"
	"sort"
	"strings"
	"sync"
	"time"

	"verif/internal/evidence"
	"verif/internal/govl"
	"verif/internal/jbuild"
	"verif/internal/known"
	"verif/internal/rng"
)

type Spec struct {
	Property    string
	Tier        string
	Seed        int64
	Workers     int
	Pkg         string // package of the module whose test binary carries the harness, e.g. "./build/cache"
	Setup       func(o *govl.Overlay) error
	EnumTests   []string // test names run once each (own process), deterministic enumeration
	RapidTests  []string // rapid tests, each run in Procs processes with derived seeds
	RapidChecks int      // per process
	Procs       int
	Timeout     time.Duration
	Level       string
	Rule        string
	Assumptions []string
	Real, Stub  []string
	ExtraEnv    []string
	// Prepare runs before the harness is built (e.g. to generate a corpus) and may return extra environment.
	Prepare func(scratch string) ([]string, error)
	// Budget is the wall-clock budget of the enumeration tests that iterate over a corpus: they get the deadline as
	// VERIF_DEADLINE_UNIX and do not start another program after it (0: none).
	Budget time.Duration
	// EnumShards > 1 runs every enumeration test in that many processes (VERIF_SHARD / VERIF_SHARDS).
	EnumShards int
	// KnownMatch attributes a violation to a listed finding ("" if none).
	KnownMatch func(kf *known.File, class, msg, point string) string
}

type rec struct {
	Kind   string         `json:"kind"`
	Class  string         `json:"class"`
	Msg    string         `json:"msg"`
	Point  string         `json:"point"`
	Counts map[string]int `json:"counts"`
	Sample any            `json:"sample"`
}

type procResult struct {
	test     string
	seed     string
	exit     int
	recs     []rec
	failFile string
	output   string
	timedOut bool
}

type Plan struct {
	Test     string `json:"test"`
	Point    string `json:"point,omitempty"`
	FailFile string `json:"failfile,omitempty"` // content of rapid's fail file
	Seed     string `json:"rapid_seed,omitempty"`
}

var reFailFile = regexp.MustCompile(`-rapid\.failfile="([^"]+)"`)

func build(spec Spec, scratch string) (string, error) {
	o, err := govl.New(filepath.Join(scratch, "overlay"))
	if err != nil {
		return "", err
	}
	if err := spec.Setup(o); err != nil {
		return "", err
	}
	bin := filepath.Join(scratch, strings.ToLower(spec.Property)+".test")
	if err := o.BuildTest(spec.Pkg, bin); err != nil {
		return "", err
	}
	return bin, nil
}

func runProc(spec Spec, bin, scratch, test, seed string, idx int, extraArgs []string, extraEnv []string) *procResult {
	dir := filepath.Join(scratch, fmt.Sprintf("run-%s-%d", test, idx))
	os.MkdirAll(dir, 0o755)
	out := filepath.Join(dir, "out.jsonl")
	args := []string{"-test.run", "^" + test + "$", "-test.timeout", "0"}
	args = append(args, extraArgs...)
	cmd := exec.Command(bin, args...)
	cmd.Dir = dir
	// temporary files of the harness process live in the run's scratch directory, which is removed even when the
	// process is killed by the watchdog
	tmp := filepath.Join(dir, "tmp")
	os.MkdirAll(tmp, 0o755)
	cmd.Env = append(os.Environ(), "TMPDIR="+tmp, "VERIF_OUT="+out, "VERIF_TIER="+spec.Tier, fmt.Sprintf("VERIF_SEED=%d", spec.Seed), "VERIF_REPO="+jbuild.Repo(), "VERIF_DIR="+jbuild.VerifDir())
	if spec.Budget > 0 {
		cmd.Env = append(cmd.Env, fmt.Sprintf("VERIF_DEADLINE_UNIX=%d", time.Now().Add(spec.Budget).Unix()))
	}
	cmd.Env = append(cmd.Env, spec.ExtraEnv...)
	cmd.Env = append(cmd.Env, extraEnv...)
	var buf strings.Builder
	cmd.Stdout = &buf
	cmd.Stderr = &buf
	pr := &procResult{test: test, seed: seed}
	done := make(chan error, 1)
	if err := cmd.Start(); err != nil {
		pr.exit = -1
		pr.output = err.Error()
		return pr
	}
	go func() { done <- cmd.Wait() }()
	select {
	case err := <-done:
		if ee, ok := err.(*exec.ExitError); ok {
			pr.exit = ee.ExitCode()
		} else if err != nil {
			pr.exit = -1
		}
	case <-time.After(spec.Timeout):
		cmd.Process.Kill()
		<-done
		pr.timedOut = true
		pr.exit = -1
	}
	pr.output = buf.String()
	if f, err := os.Open(out); err == nil {
		sc := bufio.NewScanner(f)
		sc.Buffer(make([]byte, 1<<20), 1<<26)
		for sc.Scan() {
			var r rec
			if json.Unmarshal(sc.Bytes(), &r) == nil {
				pr.recs = append(pr.recs, r)
			}
		}
		f.Close()
	}
	if m := reFailFile.FindStringSubmatch(pr.output); m != nil {
		p := m[1]
		if !filepath.IsAbs(p) {
			p = filepath.Join(dir, p)
		}
		if b, err := os.ReadFile(p); err == nil {
			pr.failFile = string(b)
		}
	}
	return pr
}

// Run executes the check, writes the evidence file and returns the exit code.
func Run(spec Spec) int {
	code, ev := RunCollect(spec)
	if ev != nil {
		if err := ev.Write(jbuild.VerifDir()); err != nil {
			fmt.Fprintln(os.Stderr, err)
			return 2
		}
	}
	return code
}

// RunCollect executes the check and returns the exit code and the evidence (nil on infrastructure trouble).
func RunCollect(spec Spec) (int, *evidence.Evidence) {
	code, ev := runCollect(spec)
	return code, ev
}

func runCollect(spec Spec) (int, *evidence.Evidence) {
	start := time.Now()
	if spec.Timeout == 0 {
		spec.Timeout = 30 * time.Minute
	}
	base := os.Getenv("VERIF_SCRATCH")
	if base == "" {
		base = os.TempDir()
	}
	scratch, err := os.MkdirTemp(base, "verif-"+strings.ToLower(spec.Property)+"-")
	if err != nil {
		fmt.Fprintln(os.Stderr, err)
		return 2, nil
	}
	if os.Getenv("VERIF_KEEP") == "" {
		defer os.RemoveAll(scratch)
	}
	if spec.Prepare != nil {
		env, err := spec.Prepare(scratch)
		if err != nil {
			fmt.Fprintln(os.Stderr, err)
			return 2, nil
		}
		spec.ExtraEnv = append(spec.ExtraEnv, env...)
	}
	bin, err := build(spec, scratch)
	if err != nil {
		fmt.Fprintln(os.Stderr, err)
		return 2, nil
	}
	kf, err := known.Load(jbuild.VerifDir())
	if err != nil {
		fmt.Fprintln(os.Stderr, err)
		return 2, nil
	}
	type job struct {
		test, seed string
		idx        int
		args       []string
		env        []string
	}
	var jobs []job
	for _, t := range spec.EnumTests {
		n := spec.EnumShards
		if n < 1 {
			n = 1
		}
		for k := 0; k < n; k++ {
			jobs = append(jobs, job{test: t, idx: k, env: []string{fmt.Sprintf("VERIF_SHARD=%d", k), fmt.Sprintf("VERIF_SHARDS=%d", n)}})
		}
	}
	for _, t := range spec.RapidTests {
		for k := 0; k < spec.Procs; k++ {
			s := rng.New(spec.Seed, spec.Property, t, k).Uint64() >> 1
			if s == 0 {
				s = 1
			}
			seed := fmt.Sprint(s)
			jobs = append(jobs, job{test: t, seed: seed, idx: k, args: []string{"-rapid.checks", fmt.Sprint(spec.RapidChecks), "-rapid.seed", seed}})
		}
	}
	results := make([]*procResult, len(jobs))
	sem := make(chan struct{}, spec.Workers)
	var wg sync.WaitGroup
	for i, j := range jobs {
		wg.Add(1)
		go func(i int, j job) {
			defer wg.Done()
			sem <- struct{}{}
			defer func() { <-sem }()
			results[i] = runProc(spec, bin, scratch, j.test, j.seed, j.idx, j.args, j.env)
		}(i, j)
	}
	wg.Wait()

	counts := map[string]int{}
	var samples []any
	violations := 0
	knownHits := map[string]int{}
	reported := map[string]int{}
	for _, pr := range results {
		if pr.timedOut {
			fmt.Fprintf(os.Stderr, "watchdog: harness test %s did not finish within %v\n", pr.test, spec.Timeout)
			return 2, nil
		}
		var vio []rec
		for _, r := range pr.recs {
			switch r.Kind {
			case "counters":
				for k, v := range r.Counts {
					if strings.HasSuffix(k, "_max") {
						if v > counts[k] {
							counts[k] = v
						}
					} else {
						counts[k] += v
					}
				}
			case "sample":
				if len(samples) < 4 {
					samples = append(samples, r.Sample)
				}
			case "violation":
				vio = append(vio, r)
			}
		}
		if pr.exit != 0 && len(vio) == 0 {
			// the harness itself failed (panic, build trouble inside the test, rapid misuse): never a VIOLATION
			fmt.Fprintf(os.Stderr, "infrastructure failure in harness test %s (exit %d):\n%s\n", pr.test, pr.exit, tailStr(pr.output, 4000))
			return 2, nil
		}
		if pr.failFile != "" && len(vio) > 0 {
			// rapid shrinks: the last violation record belongs to the minimal failing sequence
			vio = vio[len(vio)-1:]
		}
		for _, v := range vio {
			if spec.KnownMatch != nil {
				if id := spec.KnownMatch(kf, v.Class, v.Msg, v.Point); id != "" {
					knownHits[id]++
					continue
				}
			}
			violations++
			if reported[v.Class] >= 3 {
				continue
			}
			reported[v.Class]++
			plan, _ := json.Marshal(Plan{Test: pr.test, Point: v.Point, FailFile: pr.failFile, Seed: pr.seed})
			rp := &evidence.Replay{Property: spec.Property, Class: v.Class, Message: v.Msg, Kind: "govl:" + spec.Property, Workload: json.RawMessage(`{}`), Plan: plan,
				Digest: evidence.Digest(v.Class), Seed: spec.Seed, FoundAt: spec.Tier + " " + pr.test}
			path, err := evidence.WriteReplay(jbuild.VerifDir(), rp)
			if err != nil {
				fmt.Fprintln(os.Stderr, err)
				return 2, nil
			}
			fmt.Printf("VIOLATION property=%s replay=%s\n", spec.Property, path)
			fmt.Printf("  class=%s %s\n", v.Class, firstLines(v.Msg, 12))
		}
	}
	var kids []string
	for id := range knownHits {
		kids = append(kids, id)
	}
	sort.Strings(kids)
	for _, id := range kids {
		fmt.Printf("KNOWN-FINDING: property=%s %s (%d occurrences)\n", spec.Property, kf.Describe(id), knownHits[id])
	}
	wall := time.Since(start).Seconds()
	evals := counts["evaluations"]
	distinct := counts["distinct_nontrivial"]
	delete(counts, "distinct_nontrivial")
	ev := &evidence.Evidence{PropertyID: spec.Property, Tier: spec.Tier, Seed: spec.Seed, Level: spec.Level, WallS: wall, Violations: violations,
		Coverage: map[string]any{
			"evaluations":              evals,
			"distinct_nontrivial":      distinct,
			"rule":                     spec.Rule,
			"samples":                  samples,
			"counters":                 counts,
			"harness_processes":        len(jobs),
			"rapid_checks_per_process": spec.RapidChecks,
			"runs_per_hour":            int(float64(evals) / wall * 3600),
			"known_finding_hits":       knownHits,
			"real_components":          spec.Real,
			"stubbed_components":       spec.Stub,
		},
		Assumptions: spec.Assumptions,
	}
	fmt.Printf("%s %s: %d evaluations (%d distinct non-trivial), %d harness processes, %d violations, %d known findings hit, %.1fs\n", spec.Property, spec.Tier, evals, distinct, len(jobs), violations, len(kids), wall)
	if violations > 0 {
		return 1, ev
	}
	return 0, ev
}

func tailStr(s string, n int) string {
	if len(s) > n {
		return s[len(s)-n:]
	}
	return s
}

func firstLines(s string, n int) string {
	l := strings.Split(s, "\n")
	if len(l) > n {
		l = append(l[:n], "…")
	}
	return strings.Join(l, "\n    ")
}

// Replay re-runs the recorded fault point or rapid fail file against the current tree.
func Replay(spec Spec, rp *evidence.Replay) int {
	var plan Plan
	if err := json.Unmarshal(rp.Plan, &plan); err != nil {
		fmt.Fprintln(os.Stderr, err)
		return 2
	}
	base := os.Getenv("VERIF_SCRATCH")
	if base == "" {
		base = os.TempDir()
	}
	scratch, err := os.MkdirTemp(base, "verif-replay-")
	if err != nil {
		fmt.Fprintln(os.Stderr, err)
		return 2
	}
	defer os.RemoveAll(scratch)
	if spec.Timeout == 0 {
		spec.Timeout = 30 * time.Minute
	}
	if spec.Prepare != nil {
		penv, err := spec.Prepare(scratch)
		if err != nil {
			fmt.Fprintln(os.Stderr, err)
			return 2
		}
		spec.ExtraEnv = append(spec.ExtraEnv, penv...)
	}
	bin, err := build(spec, scratch)
	if err != nil {
		fmt.Fprintln(os.Stderr, err)
		return 2
	}
	var args, env []string
	if plan.FailFile != "" {
		ff := filepath.Join(scratch, "replay.fail")
		os.WriteFile(ff, []byte(plan.FailFile), 0o644)
		args = []string{"-rapid.failfile", ff}
	} else if plan.Point != "" {
		env = []string{"VERIF_ONLY=" + plan.Point}
	}
	pr := runProc(spec, bin, scratch, plan.Test, plan.Seed, 0, args, env)
	fmt.Println(tailStr(pr.output, 6000))
	for _, r := range pr.recs {
		if r.Kind == "violation" {
			fmt.Printf("replay: class=%s (recorded class=%s)\n", r.Class, rp.Class)
			fmt.Printf("VIOLATION property=%s replay=%s\n", rp.Property, os.Getenv("VERIF_REPLAY_PATH"))
			return 1
		}
	}
	if pr.exit != 0 {
		fmt.Fprintln(os.Stderr, "replay: the harness failed without reporting a violation")
		return 2
	}
	fmt.Println("replay: no violation any more")
	return 0
}
