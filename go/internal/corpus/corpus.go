// Package corpus generates the program corpus shared by the World-G build checks (C17, C20 end-to-end).
package corpus

import (
	"fmt"
	"os"
	"path/filepath"

	"verif/internal/gengen"
	"verif/internal/jbuild"
	"verif/internal/rng"
	"verif/internal/seqgen"
)

type Entry struct {
	Dir    string   `json:"dir"`
	Mains  []string `json:"mains"`
	Name   string   `json:"name"`
	Module string   `json:"module"`
}

func writeProg(dir string, files map[string]string) error { return jbuild.WriteFiles(dir, files) }

func Generate(root string, seed int64, n int) ([]Entry, error) {
	var list []Entry
	for i := 0; i < n; i++ {
		name := fmt.Sprintf("prog%03d", i)
		dir := filepath.Join(root, name)
		r := rng.New(seed, "corpus", "prog", i)
		if i%5 == 4 {
			// a seqgen program (closures, escaping variables, many statement forms)
			p := seqgen.Generate(r, seqgen.Opts{Funcs: 3, Stmts: 10, Depth: 3, Clean: true, Goroutine: true})
			if err := copyDir(filepath.Join(jbuild.VerifDir(), "workloads", "seqlib"), dir); err != nil {
				return nil, err
			}
			if err := writeProg(dir, p.Files); err != nil {
				return nil, err
			}
			list = append(list, Entry{Dir: dir, Mains: []string{"."}, Name: name, Module: "seqprog"})
			continue
		}
		if i%6 == 3 {
			// two mains sharing a non-generic library, one of them linknaming into it
			module := fmt.Sprintf("plainprog%03d", i)
			name = fmt.Sprintf("plain%03d", i)
			p := gengen.GeneratePlainMulti(r, module)
			if err := writeProg(dir, p.Files); err != nil {
				return nil, err
			}
			list = append(list, Entry{Dir: dir, Mains: p.Mains, Name: name, Module: module})
			continue
		}
		module := fmt.Sprintf("genprog%03d", i)
		p := gengen.Generate(r, i%3 == 1, module)
		if err := writeProg(dir, p.Files); err != nil {
			return nil, err
		}
		list = append(list, Entry{Dir: dir, Mains: p.Mains, Name: name, Module: module})
	}
	// a hand-written package with one specimen of nearly every kind of syntax node, comment and directive
	zoo := filepath.Join(root, "astzoo")
	if err := copyDir(filepath.Join(jbuild.VerifDir(), "workloads", "curated", "astzoo"), zoo); err != nil {
		return nil, err
	}
	list = append(list, Entry{Dir: zoo, Mains: []string{"."}, Name: "astzoo", Module: "astzoo"})
	return list, nil
}

func copyDir(src, dst string) error {
	return filepath.Walk(src, func(path string, info os.FileInfo, err error) error {
		if err != nil {
			return err
		}
		rel, _ := filepath.Rel(src, path)
		if info.IsDir() {
			return os.MkdirAll(filepath.Join(dst, rel), 0o755)
		}
		b, err := os.ReadFile(path)
		if err != nil {
			return err
		}
		return os.WriteFile(filepath.Join(dst, rel), b, 0o644)
	})
}
