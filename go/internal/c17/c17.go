// Package c17 wires the C17 check: builds are reproducible. Nondeterminism behind seams the simulator owns:
// map iteration order inside the compiler (range-site rewrite + seeded permutation), the order in which source
// files are listed (XContext wrapper), session history, minify on/off - all exactly replayable. A statistical
// control group (the unmodified CLI in fresh OS processes under Go's own map randomisation) is reported
// separately.
package c17

import (
	"crypto/sha256"
	"encoding/json"
	"fmt"
	"os"
	"os/exec"
	"path/filepath"
	"sync"
	"time"

	"verif/internal/corpus"
	"verif/internal/evidence"
	"verif/internal/gharness"
	"verif/internal/govl"
	"verif/internal/jbuild"
	"verif/internal/known"
	"verif/internal/rangerewrite"
)

func Spec(tier string, seed int64, workers int) gharness.Spec {
	n, budget := 12, 12*time.Minute
	if tier == "thorough" {
		n, budget = 160, 60*time.Minute
	}
	sp := gharness.Spec{Property: "C17", Tier: tier, Seed: seed, Workers: workers, Pkg: "./build", Level: "exploration", EnumShards: workers, Timeout: 3 * time.Hour, Budget: budget,
		EnumTests: []string{"TestVerifC17"},
		Prepare: func(scratch string) ([]string, error) {
			root := filepath.Join(scratch, "corpus")
			list, err := corpus.Generate(root, seed, n)
			if err != nil {
				return nil, err
			}
			b, _ := json.Marshal(list)
			lp := filepath.Join(scratch, "corpus.json")
			if err := os.WriteFile(lp, b, 0o644); err != nil {
				return nil, err
			}
			return []string{"VERIF_C17_LIST=" + lp}, nil
		},
		Setup: func(o *govl.Overlay) error {
			if err := o.AddFromVerif("verifrange/verifrange.go", "internal/verifrange/verifrange.go"); err != nil {
				return err
			}
			rw, err := rangerewrite.Rewrite(o.Repo, "./compiler/...", "./build/...", "./internal/...")
			if err != nil {
				return fmt.Errorf("range-site rewrite: %v", err)
			}
			if len(rw.Sites) == 0 {
				return fmt.Errorf("range-site rewrite found no range-over-map site: the seam cannot be applied")
			}
			for rel, src := range rw.Files {
				if err := o.AddFile(rel, src); err != nil {
					return err
				}
			}
			sites, _ := json.Marshal(rw.Sites)
			os.WriteFile(filepath.Join(o.Dir, "sites.json"), sites, 0o644)
			return o.AddFromVerif("c17/c17_test.go.txt", "build/zz_verif_c17_test.go")
		},
		Rule: "one evaluation = one in-process compile of a corpus program (generic-heavy multi-package programs, multi-main programs sharing a generic library, seqgen programs) under one configuration of the owned nondeterminism, its sha256 of out.js and of the source map compared with the plain compile of the same sources and options; " +
			"distinct non-trivial = compiles under a non-identity map-order tape, a non-identity listing permutation, a non-empty session history, or all at once (every one is a distinct (program, dimension, seed) point by construction)",
		Real: []string{"the whole compiler and build.Session from /repo working tree (range-over-map statements rewritten to iterate verifrange.Order; otherwise unchanged)", "real go/build file discovery underneath the listing wrapper"},
		Stub: []string{"map iteration order (seeded permutation of canonically sorted keys)", "file listing order (XContext wrapper)"},
		Assumptions: []string{
			"keys of compiler maps are ordered by an address-free descriptor before permuting; descriptor ties and unknown key kinds are an uncontrolled residue, counted in evidence",
			"programs of different modules may be built in one session; two programs with the same import path and different content may not (not generated)",
			"the control group (unmodified CLI, fresh processes, Go's own map randomisation) is statistical: a divergence there reproduces only with some probability",
		},
	}
	sp.KnownMatch = func(kf *known.File, class, msg, point string) string { return kf.MatchC17(class, msg, point) }
	return sp
}

// control runs the unmodified CLI several times in fresh processes and compares output hashes.
func control(tier string, seed int64, workers int) (violations int, counters map[string]int, code int) {
	counters = map[string]int{}
	env, err := jbuild.Setup("c17ctl")
	if err != nil {
		fmt.Fprintln(os.Stderr, err)
		return 0, nil, 2
	}
	defer env.Cleanup()
	n, reps := 6, 4
	if tier == "thorough" {
		n, reps = 60, 8
	}
	list, err := corpus.Generate(filepath.Join(env.Scratch, "corpus"), seed+1, n)
	if err != nil {
		fmt.Fprintln(os.Stderr, err)
		return 0, nil, 2
	}
	var mu sync.Mutex
	var wg sync.WaitGroup
	sem := make(chan struct{}, workers)
	var infra error
	for _, e := range list {
		for _, m := range e.Mains {
			for _, minify := range []bool{false, true} {
				wg.Add(1)
				go func(e corpus.Entry, m string, minify bool) {
					defer wg.Done()
					sem <- struct{}{}
					defer func() { <-sem }()
					hashes := map[string]int{}
					var first string
					for k := 0; k < reps; k++ {
						od := filepath.Join(env.Scratch, fmt.Sprintf("ctl-%s-%s-%v-%d", e.Name, filepath.Base(m), minify, k))
						os.MkdirAll(od, 0o755)
						out := filepath.Join(od, "out.js") // the same name every time: it is recorded in the output
						args := []string{"build", "-o", out}
						if minify {
							args = append(args, "-m")
						}
						args = append(args, ".")
						cmd := exec.Command(env.Gopherjs, args...)
						cmd.Dir = filepath.Join(e.Dir, m)
						cmd.Env = append(os.Environ(), "GOFLAGS=-mod=mod", "GOPROXY=off", "GOSUMDB=off", "GOTOOLCHAIN=local", "GOPHERJS_SKIP_VERSION_CHECK=1", "GO111MODULE=on", "XDG_CACHE_HOME="+filepath.Join(env.Scratch, "xdg"))
						if b, err := cmd.CombinedOutput(); err != nil {
							mu.Lock()
							infra = fmt.Errorf("control group build failed: %v\n%s", err, b)
							mu.Unlock()
							return
						}
						js, _ := os.ReadFile(out)
						mp, _ := os.ReadFile(out + ".map")
						h := fmt.Sprintf("%x", sha256.Sum256(append(js, mp...)))[:24]
						hashes[h]++
						if first == "" {
							first = h
						}
						os.RemoveAll(od)
						mu.Lock()
						counters["control_builds"]++
						mu.Unlock()
					}
					if len(hashes) > 1 {
						mu.Lock()
						violations++
						mu.Unlock()
						fmt.Printf("  control group: %s %s minify=%v produced %d different outputs in %d fresh processes: %v\n", e.Name, m, minify, len(hashes), reps, hashes)
					}
				}(e, m, minify)
			}
		}
	}
	wg.Wait()
	if infra != nil {
		fmt.Fprintln(os.Stderr, infra)
		return 0, nil, 2
	}
	return violations, counters, 0
}

func Run(tier string, seed int64, workers int) int {
	start := time.Now()
	code, ev := gharness.RunCollect(Spec(tier, seed, workers))
	if ev == nil {
		return 2
	}
	cv, cc, ccode := control(tier, seed, workers)
	if ccode == 2 {
		return 2
	}
	if cv > 0 {
		rp := &evidence.Replay{Property: "C17", Class: "process-nondeterminism", Message: "the unmodified compiler produced different outputs for the same sources in fresh processes (statistical control group; re-sample to reproduce)", Kind: "c17control", Workload: json.RawMessage(`{}`), Digest: evidence.Digest("process-nondeterminism"), Seed: seed, FoundAt: tier + " control"}
		path, _ := evidence.WriteReplay(jbuild.VerifDir(), rp)
		fmt.Printf("VIOLATION property=C17 replay=%s\n", path)
		ev.Violations += cv
		code = 1
	}
	ev.Coverage["control_group"] = cc
	ev.Coverage["evaluations"] = ev.Coverage["evaluations"].(int) + cc["control_builds"]
	ev.WallS = time.Since(start).Seconds()
	if err := ev.Write(jbuild.VerifDir()); err != nil {
		fmt.Fprintln(os.Stderr, err)
		return 2
	}
	fmt.Printf("C17 control group: %d fresh-process builds, %d divergences\n", cc["control_builds"], cv)
	return code
}

func Replay(rp *evidence.Replay) int {
	if rp.Kind == "c17control" {
		v, _, code := control("quick", rp.Seed, 8)
		if code == 2 {
			return 2
		}
		if v > 0 {
			fmt.Printf("VIOLATION property=C17 replay=%s\n", os.Getenv("VERIF_REPLAY_PATH"))
			return 1
		}
		fmt.Println("replay: the control group did not diverge in this sample (reproduction is probabilistic)")
		return 0
	}
	return gharness.Replay(Spec(tierOf(rp), rp.Seed, 1), rp)
}

// tierOf recovers the tier a replay file was found in (the corpus size depends on it).
func tierOf(rp *evidence.Replay) string {
	if len(rp.FoundAt) >= 8 && rp.FoundAt[:8] == "thorough" {
		return "thorough"
	}
	return "quick"
}
