// Package kpngen generates deterministic-by-construction concurrent programs (C03 workload B): Kahn-style
// process networks in which every channel has one producer and one consumer, or several producers whose values
// the consumer combines commutatively; select appears only in confluent forms. Whatever the scheduler does, the
// per-process logs printed after the final join are the same, so the natively built program is the reference.
// The syntactic variety is the point: selects in loops, range over channels, struct values sent by copy,
// channels of channels, closures as goroutine bodies, perturbation points (y.P) sprinkled everywhere.
package kpngen

import (
	"fmt"
	"sort"
	"strings"

	"verif/internal/rng"
)

type Program struct {
	Files    map[string]string
	Features map[string]int
	Procs    int
}

type gen struct {
	r     *rng.R
	b     strings.Builder
	feat  map[string]int
	nproc int
	nchan int
	atom  int
	decls []string // channel declarations in main
	procs []string // goroutine start statements
}

func (g *gen) f(n string) { g.feat[n]++ }

func (g *gen) ch() string {
	g.nchan++
	name := fmt.Sprintf("c%d", g.nchan)
	g.decls = append(g.decls, fmt.Sprintf("%s := make(chan int, %d)", name, []int{0, 0, 1, 3}[g.r.Intn(4)]))
	return name
}

func (g *gen) p() string {
	g.atom++
	if g.r.Chance(1, 3) {
		return fmt.Sprintf("y.P(%d)\n\t\t\truntime.Gosched()", g.atom)
	}
	return fmt.Sprintf("y.P(%d)", g.atom)
}

// proc registers a goroutine with the given body (which may use `id`, `logf(v)` and must not return early).
func (g *gen) proc(body string) int {
	g.nproc++
	id := g.nproc
	g.procs = append(g.procs, fmt.Sprintf("\tgo func(id int) {\n\t\tdefer func() { done <- id }()\n\t\tn, sum := 0, 0\n\t\t_, _ = n, sum\n%s\n\t\tlogs[id] = append(logs[id], n, sum)\n\t}(%d)", body, id))
	return id
}

func (g *gen) source() string {
	out := g.ch()
	k := 2 + g.r.Intn(5)
	g.f("source")
	g.proc(fmt.Sprintf("\t\tfor i := 0; i < %d; i++ {\n\t\t\t%s\n\t\t\t%s <- (i*%d + %d) %% 9973\n\t\t\tn++\n\t\t}\n\t\tclose(%s)", k, g.p(), out, 3+g.r.Intn(7), g.r.Intn(50), out))
	return out
}

func (g *gen) mapStage(in string) string {
	out := g.ch()
	g.f("map-range")
	filter := ""
	if g.r.Chance(1, 3) {
		filter = "\t\t\tif v%3 == 0 {\n\t\t\t\tcontinue\n\t\t\t}\n"
		g.f("map-filter-continue")
	}
	g.proc(fmt.Sprintf("\t\tfor v := range %s {\n%s\t\t\t%s\n\t\t\t%s <- (v*%d + 1) %% 9973\n\t\t\tn++\n\t\t\tsum = (sum + v) %% 9973\n\t\t}\n\t\tclose(%s)", in, filter, g.p(), out, 2+g.r.Intn(5), out))
	return out
}

func (g *gen) zip(a, b string) string {
	out := g.ch()
	g.f("zip-comma-ok")
	g.proc(fmt.Sprintf("\t\tfor {\n\t\t\tx, ok := <-%s\n\t\t\tif !ok {\n\t\t\t\tbreak\n\t\t\t}\n\t\t\t%s\n\t\t\tw, ok2 := <-%s\n\t\t\tif !ok2 {\n\t\t\t\tbreak\n\t\t\t}\n\t\t\t%s <- (x + w*2) %% 9973\n\t\t\tn++\n\t\t}\n\t\tfor range %s {\n\t\t}\n\t\tfor range %s {\n\t\t}\n\t\tclose(%s)", a, g.p(), b, out, a, b, out))
	return out
}

func (g *gen) mergeSum(a, b string) string {
	out := g.ch()
	g.f("select-confluent-sum")
	g.proc(fmt.Sprintf("\t\ta, b := %s, %s\n\t\tfor a != nil || b != nil {\n\t\t\t%s\n\t\t\tselect {\n\t\t\tcase v, ok := <-a:\n\t\t\t\tif !ok {\n\t\t\t\t\ta = nil\n\t\t\t\t\tcontinue\n\t\t\t\t}\n\t\t\t\tsum = (sum + v) %% 9973\n\t\t\t\tn++\n\t\t\tcase v, ok := <-b:\n\t\t\t\tif !ok {\n\t\t\t\t\tb = nil\n\t\t\t\t\tcontinue\n\t\t\t\t}\n\t\t\t\tsum = (sum + v*3) %% 9973\n\t\t\t\tn++\n\t\t\t}\n\t\t}\n\t\t%s <- sum\n\t\t%s <- n\n\t\tclose(%s)", a, b, g.p(), out, out, out))
	return out
}

func (g *gen) fanOut(in string) (string, string) {
	o1, o2 := g.ch(), g.ch()
	g.f("fan-out-alternate")
	g.proc(fmt.Sprintf("\t\tfor v := range %s {\n\t\t\t%s\n\t\t\tif n%%2 == 0 {\n\t\t\t\t%s <- v\n\t\t\t} else {\n\t\t\t\t%s <- v + 1\n\t\t\t}\n\t\t\tn++\n\t\t}\n\t\tclose(%s)\n\t\tclose(%s)", in, g.p(), o1, o2, o1, o2))
	return o1, o2
}

func (g *gen) fanIn(a, b string) string {
	shared, out := g.ch(), g.ch()
	g.nchan++
	fin := fmt.Sprintf("fin%d", g.nchan)
	g.decls = append(g.decls, fmt.Sprintf("%s := make(chan bool)", fin))
	g.f("fan-in-commutative")
	for _, in := range []string{a, b} {
		g.proc(fmt.Sprintf("\t\tfor v := range %s {\n\t\t\t%s\n\t\t\t%s <- v\n\t\t\tn++\n\t\t}\n\t\t%s <- true", in, g.p(), shared, fin))
	}
	g.proc(fmt.Sprintf("\t\t<-%s\n\t\t%s\n\t\t<-%s\n\t\tclose(%s)", fin, g.p(), fin, shared))
	g.proc(fmt.Sprintf("\t\tfor v := range %s {\n\t\t\tsum = (sum + v*v) %% 9973\n\t\t\tn++\n\t\t\t%s\n\t\t}\n\t\t%s <- sum\n\t\t%s <- n\n\t\tclose(%s)", shared, g.p(), out, out, out))
	return out
}

func (g *gen) structStage(in string) string {
	out := g.ch()
	g.nchan++
	sc := fmt.Sprintf("sc%d", g.nchan)
	g.decls = append(g.decls, fmt.Sprintf("%s := make(chan rec, %d)", sc, g.r.Intn(3)))
	g.f("struct-sent-by-copy")
	g.proc(fmt.Sprintf("\t\tvar r rec\n\t\tfor v := range %s {\n\t\t\tr.A = v\n\t\t\tr.B[n%%2] = v + 1\n\t\t\t%s <- r\n\t\t\tr.A = -1 // the receiver must have got a copy\n\t\t\tr.B[0]++\n\t\t\t%s\n\t\t\tn++\n\t\t}\n\t\tclose(%s)", in, sc, g.p(), sc))
	g.proc(fmt.Sprintf("\t\tfor r := range %s {\n\t\t\t%s\n\t\t\t%s <- (r.A + r.B[0]*2 + r.B[1]*3) %% 9973\n\t\t\tn++\n\t\t}\n\t\tclose(%s)", sc, g.p(), out, out))
	return out
}

func (g *gen) rpcStage(in string) string {
	out := g.ch()
	g.nchan++
	rq := fmt.Sprintf("rq%d", g.nchan)
	g.decls = append(g.decls, fmt.Sprintf("%s := make(chan req, %d)", rq, g.r.Intn(2)))
	g.f("channel-of-channels")
	g.proc(fmt.Sprintf("\t\tfor v := range %s {\n\t\t\treply := make(chan int, %d)\n\t\t\t%s <- req{v, reply}\n\t\t\t%s\n\t\t\t%s <- <-reply\n\t\t\tn++\n\t\t}\n\t\tclose(%s)\n\t\tclose(%s)", in, g.r.Intn(2), rq, g.p(), out, rq, out))
	g.proc(fmt.Sprintf("\t\tfor q := range %s {\n\t\t\t%s\n\t\t\tq.reply <- (q.v*2 + 1) %% 9973\n\t\t\tsum = (sum + q.v) %% 9973\n\t\t\tn++\n\t\t}", rq, g.p()))
	return out
}

// arrayStage sends arrays by value and starts its worker with evaluated go-statement arguments.
func (g *gen) arrayStage(in string) string {
	out := g.ch()
	g.nchan++
	ac := fmt.Sprintf("ac%d", g.nchan)
	g.decls = append(g.decls, fmt.Sprintf("%s := make(chan [2]int, %d)", ac, g.r.Intn(3)))
	g.f("array-sent-by-copy")
	g.proc(fmt.Sprintf("\t\tvar pair [2]int\n\t\tfor v := range %s {\n\t\t\tpair[n%%2] = v\n\t\t\tselect {\n\t\t\tcase %s <- pair:\n\t\t\t}\n\t\t\tpair[0] += 1000 // the receiver must have got a copy\n\t\t\t%s\n\t\t\tn++\n\t\t}\n\t\tclose(%s)", in, ac, g.p(), ac))
	g.f("go-statement-evaluated-arguments")
	g.nproc++
	id := g.nproc
	g.procs = append(g.procs, fmt.Sprintf("\tgo func(id, bias int, in <-chan [2]int, out chan<- int) {\n\t\tdefer func() { done <- id }()\n\t\tn := 0\n\t\tfor p := range in {\n\t\t\tout <- (p[0]%%1000 + p[1]*2 + bias) %% 9973\n\t\t\tn++\n\t\t}\n\t\tclose(out)\n\t\tlogs[id] = append(logs[id], n, bias)\n\t}(%d, cap(%s)+%d, %s, %s)", id, ac, g.r.Intn(9), ac, out))
	return out
}

func (g *gen) sink(in string) {
	g.f("sink")
	g.proc(fmt.Sprintf("\t\tfor v := range %s {\n\t\t\tlogs[id] = append(logs[id], v)\n\t\t\tn++\n\t\t\t%s\n\t\t}", in, g.p()))
}

// Generate draws one process network.
func Generate(r *rng.R) *Program {
	g := &gen{r: r, feat: map[string]int{}}
	var open []string
	ns := 1 + r.Intn(3)
	for i := 0; i < ns; i++ {
		open = append(open, g.source())
	}
	steps := 2 + r.Intn(6)
	take := func() string {
		i := r.Intn(len(open))
		s := open[i]
		open = append(open[:i], open[i+1:]...)
		return s
	}
	for s := 0; s < steps; s++ {
		switch k := r.Intn(8); {
		case k == 0 && len(open) >= 2:
			open = append(open, g.zip(take(), take()))
		case k == 1 && len(open) >= 2:
			open = append(open, g.mergeSum(take(), take()))
		case k == 2 && len(open) >= 2:
			open = append(open, g.fanIn(take(), take()))
		case k == 3 && len(open) < 4:
			a, b := g.fanOut(take())
			open = append(open, a, b)
		case k == 4:
			open = append(open, g.structStage(take()))
		case k == 5:
			open = append(open, g.rpcStage(take()))
		case k == 7 && g.r.Bool():
			open = append(open, g.arrayStage(take()))
		case k == 6 && len(open) < 3:
			open = append(open, g.source())
		default:
			open = append(open, g.mapStage(take()))
		}
	}
	for len(open) > 0 {
		g.sink(take())
	}
	var b strings.Builder
	b.WriteString("package main\n\nimport (\n\t\"runtime\"\n\n\t\"seqprog/y\"\n)\n\ntype rec struct {\n\tA int\n\tB [2]int\n}\n\ntype req struct {\n\tv     int\n\treply chan int\n}\n\nvar _ = runtime.Gosched\n\nfunc main() {\n")
	fmt.Fprintf(&b, "\tlogs := make([][]int, %d)\n\tdone := make(chan int, %d)\n", g.nproc+1, g.nproc+1)
	for _, d := range g.decls {
		b.WriteString("\t" + d + "\n")
	}
	for _, p := range g.procs {
		b.WriteString(p + "\n")
	}
	fmt.Fprintf(&b, "\tfor i := 0; i < %d; i++ {\n\t\t<-done\n\t}\n", g.nproc)
	b.WriteString("\tfor id := 1; id < len(logs); id++ {\n\t\tfor _, v := range logs[id] {\n\t\t\tprintln(id, v)\n\t\t}\n\t}\n\tprintln(\"END\")\n\ty.P(0)\n}\n")
	return &Program{Files: map[string]string{"main.go": b.String(), "go.mod": "module seqprog\n\ngo 1.20\n"}, Features: g.feat, Procs: g.nproc}
}

func (p *Program) FeatureList() []string {
	var l []string
	for k := range p.Features {
		l = append(l, k)
	}
	sort.Strings(l)
	return l
}
