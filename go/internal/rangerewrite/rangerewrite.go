// Package rangerewrite locates every `range` over a map in GopherJS's own packages (with go/types, at check
// time, so that sites added by an edit are covered too) and rewrites it to iterate verifrange.Order(m, site).
// The rewritten files are handed to the build overlay; the repository is not touched.
package rangerewrite

import (
	"bytes"
	"fmt"
	"go/ast"
	"go/format"
	"go/token"
	"go/types"
	"os"
	"sort"
	"strings"

	"golang.org/x/tools/go/ast/astutil"
	"golang.org/x/tools/go/packages"
)

const helperPath = "github.com/gopherjs/gopherjs/internal/verifrange"

type Result struct {
	Files map[string][]byte // repo-relative path -> rewritten source
	Sites []string
}

func isBlank(e ast.Expr) bool {
	id, ok := e.(*ast.Ident)
	return ok && id.Name == "_"
}

// Rewrite loads the given package patterns of the module rooted at repo.
func Rewrite(repo string, patterns ...string) (*Result, error) {
	cfg := &packages.Config{Mode: packages.NeedName | packages.NeedFiles | packages.NeedSyntax | packages.NeedTypes | packages.NeedTypesInfo | packages.NeedImports | packages.NeedDeps,
		Dir: repo, Env: append(os.Environ(), "GOFLAGS=-mod=mod", "GOPROXY=off", "GOSUMDB=off", "GOTOOLCHAIN=local")}
	pkgs, err := packages.Load(cfg, patterns...)
	if err != nil {
		return nil, err
	}
	res := &Result{Files: map[string][]byte{}}
	for _, p := range pkgs {
		if len(p.Errors) > 0 {
			return nil, fmt.Errorf("loading %s: %v", p.PkgPath, p.Errors[0])
		}
		for _, f := range p.Syntax {
			n := 0
			changed := false
			orig := p.Fset.Position(f.Package).Filename
			if strings.HasSuffix(orig, "_test.go") {
				continue
			}
			rel := strings.TrimPrefix(orig, repo+"/")
			astutil.Apply(f, func(c *astutil.Cursor) bool {
				r, ok := c.Node().(*ast.RangeStmt)
				if !ok {
					return true
				}
				t := p.TypesInfo.TypeOf(r.X)
				if t == nil {
					return true
				}
				if _, ok := t.Underlying().(*types.Map); !ok {
					return true
				}
				// a labelled range statement keeps its label: the rewritten loop must stay the labelled statement
				pos := p.Fset.Position(r.Pos())
				site := fmt.Sprintf("%s:%d", rel, pos.Line)
				n++
				mv, kv, vv, okv := fmt.Sprintf("verifM%d", n), fmt.Sprintf("verifK%d", n), fmt.Sprintf("verifV%d", n), fmt.Sprintf("verifOK%d", n)
				var pre []ast.Stmt
				// entries deleted during the loop are skipped, as Go does
				pre = append(pre, &ast.AssignStmt{Lhs: []ast.Expr{ast.NewIdent(vv), ast.NewIdent(okv)}, Tok: token.DEFINE, Rhs: []ast.Expr{&ast.IndexExpr{X: ast.NewIdent(mv), Index: ast.NewIdent(kv)}}})
				pre = append(pre, &ast.IfStmt{Cond: &ast.UnaryExpr{Op: token.NOT, X: ast.NewIdent(okv)}, Body: &ast.BlockStmt{List: []ast.Stmt{&ast.BranchStmt{Tok: token.CONTINUE}}}})
				pre = append(pre, &ast.AssignStmt{Lhs: []ast.Expr{ast.NewIdent("_")}, Tok: token.ASSIGN, Rhs: []ast.Expr{ast.NewIdent(vv)}})
				tok := r.Tok
				if tok == token.ILLEGAL {
					tok = token.ASSIGN
				}
				if r.Key != nil && !isBlank(r.Key) {
					pre = append(pre, &ast.AssignStmt{Lhs: []ast.Expr{r.Key}, Tok: tok, Rhs: []ast.Expr{ast.NewIdent(kv)}})
				}
				if r.Value != nil && !isBlank(r.Value) {
					pre = append(pre, &ast.AssignStmt{Lhs: []ast.Expr{r.Value}, Tok: tok, Rhs: []ast.Expr{ast.NewIdent(vv)}})
				}
				if r.Tok == token.DEFINE {
					for _, e := range []ast.Expr{r.Key, r.Value} {
						if e != nil && !isBlank(e) {
							pre = append(pre, &ast.AssignStmt{Lhs: []ast.Expr{ast.NewIdent("_")}, Tok: token.ASSIGN, Rhs: []ast.Expr{e}})
						}
					}
				}
				body := &ast.BlockStmt{List: append(pre, r.Body.List...)}
				loop := &ast.RangeStmt{Key: ast.NewIdent("_"), Value: ast.NewIdent(kv), Tok: token.DEFINE,
					X:    &ast.CallExpr{Fun: &ast.SelectorExpr{X: ast.NewIdent("verifrange"), Sel: ast.NewIdent("Order")}, Args: []ast.Expr{ast.NewIdent(mv), &ast.BasicLit{Kind: token.STRING, Value: fmt.Sprintf("%q", site)}}},
					Body: body}
				if _, labelled := c.Parent().(*ast.LabeledStmt); labelled {
					// { m := X } cannot precede a labelled loop inside the label: hoist the map into the range expression
					loop.X = &ast.CallExpr{Fun: &ast.SelectorExpr{X: ast.NewIdent("verifrange"), Sel: ast.NewIdent("Order")}, Args: []ast.Expr{r.X, &ast.BasicLit{Kind: token.STRING, Value: fmt.Sprintf("%q", site)}}}
					// the body needs the map again; evaluate X a second time (labelled map ranges in GopherJS range over plain variables)
					pre[0] = &ast.AssignStmt{Lhs: []ast.Expr{ast.NewIdent(vv), ast.NewIdent(okv)}, Tok: token.DEFINE, Rhs: []ast.Expr{&ast.IndexExpr{X: r.X, Index: ast.NewIdent(kv)}}}
					c.Replace(loop)
				} else {
					c.Replace(&ast.BlockStmt{List: []ast.Stmt{
						&ast.AssignStmt{Lhs: []ast.Expr{ast.NewIdent(mv)}, Tok: token.DEFINE, Rhs: []ast.Expr{r.X}},
						loop,
					}})
				}
				res.Sites = append(res.Sites, site)
				changed = true
				return true
			}, nil)
			if !changed {
				continue
			}
			astutil.AddImport(p.Fset, f, helperPath)
			var buf bytes.Buffer
			if err := format.Node(&buf, p.Fset, f); err != nil {
				return nil, fmt.Errorf("printing rewritten %s: %v", rel, err)
			}
			res.Files[rel] = buf.Bytes()
		}
	}
	sort.Strings(res.Sites)
	return res, nil
}
