// Package govl builds World-G harness binaries: test binaries of packages of the GopherJS module, compiled
// from /repo's current working tree with a build overlay that adds harness files and replaces mechanically
// rewritten sources. Nothing is written into /repo.
package govl

import (
	"bytes"
	"encoding/json"
	"fmt"
	"go/ast"
	"go/format"
	"go/parser"
	"go/token"
	"os"
	"os/exec"
	"path/filepath"
	"strconv"
	"strings"

	"verif/internal/jbuild"
)

type Overlay struct {
	Repo    string
	Verif   string
	Dir     string            // scratch directory holding generated files
	Replace map[string]string // absolute repo path -> file on disk
}

func New(scratch string) (*Overlay, error) {
	o := &Overlay{Repo: jbuild.Repo(), Verif: jbuild.VerifDir(), Dir: scratch, Replace: map[string]string{}}
	return o, os.MkdirAll(scratch, 0o755)
}

// AddFile makes content appear at repoRel inside the module.
func (o *Overlay) AddFile(repoRel string, content []byte) error {
	name := filepath.Join(o.Dir, strings.ReplaceAll(repoRel, "/", "__"))
	if err := os.WriteFile(name, content, 0o644); err != nil {
		return err
	}
	o.Replace[filepath.Join(o.Repo, repoRel)] = name
	return nil
}

// AddFromVerif copies a file of /verif (relative to /verif/go/overlay) to repoRel.
func (o *Overlay) AddFromVerif(rel, repoRel string) error {
	b, err := os.ReadFile(filepath.Join(o.Verif, "go", "overlay", rel))
	if err != nil {
		return err
	}
	return o.AddFile(repoRel, b)
}

// SwapImport rebuilds repoRel with the import of oldPath bound to newPath under the alias of oldPath's base
// name (e.g. "os" -> simulated file system). Fails if the file no longer imports oldPath.
func (o *Overlay) SwapImport(repoRel, oldPath, newPath string) error {
	src := filepath.Join(o.Repo, repoRel)
	fset := token.NewFileSet()
	f, err := parser.ParseFile(fset, src, nil, parser.ParseComments)
	if err != nil {
		return err
	}
	found := false
	for _, imp := range f.Imports {
		if p, _ := strconv.Unquote(imp.Path.Value); p == oldPath {
			alias := filepath.Base(oldPath)
			if imp.Name != nil {
				alias = imp.Name.Name
			}
			imp.Name = ast.NewIdent(alias)
			imp.Path.Value = strconv.Quote(newPath)
			found = true
		}
	}
	if !found {
		return fmt.Errorf("%s does not import %q any more: the overlay seam cannot be applied", repoRel, oldPath)
	}
	var buf bytes.Buffer
	if err := format.Node(&buf, fset, f); err != nil {
		return err
	}
	return o.AddFile(repoRel, buf.Bytes())
}

// modfile writes an alternate go.mod/go.sum next to the overlay that also requires the harness's modules.
func (o *Overlay) modfile() (string, error) {
	mod, err := os.ReadFile(filepath.Join(o.Repo, "go.mod"))
	if err != nil {
		return "", err
	}
	alt := string(mod) + "\nrequire (\n\tpgregory.net/rapid v1.3.0\n\tgithub.com/anishathalye/porcupine v1.3.0\n)\n"
	sum, _ := os.ReadFile(filepath.Join(o.Repo, "go.sum"))
	vsum, _ := os.ReadFile(filepath.Join(o.Verif, "go", "go.sum"))
	p := filepath.Join(o.Dir, "alt.mod")
	if err := os.WriteFile(p, []byte(alt), 0o644); err != nil {
		return "", err
	}
	if err := os.WriteFile(filepath.Join(o.Dir, "alt.sum"), append(append(sum, '\n'), vsum...), 0o644); err != nil {
		return "", err
	}
	return p, nil
}

// BuildTest compiles the test binary of pkg (e.g. "./build/cache") with the overlay applied.
func (o *Overlay) BuildTest(pkg, out string) error {
	ov, _ := json.Marshal(map[string]any{"Replace": o.Replace})
	ovPath := filepath.Join(o.Dir, "overlay.json")
	if err := os.WriteFile(ovPath, ov, 0o644); err != nil {
		return err
	}
	mod, err := o.modfile()
	if err != nil {
		return err
	}
	args := []string{"test", "-c", "-vet=off", "-overlay=" + ovPath, "-modfile=" + mod, "-o", out}
	if os.Getenv("VERIF_RACE") != "" {
		args = append(args, "-race") // harness self-check: the simulated scheduler must be free of data races
	}
	cmd := exec.Command("go", append(args, pkg)...)
	cmd.Dir = o.Repo
	cmd.Env = append(os.Environ(), "GOFLAGS=-mod=mod", "GOPROXY=off", "GOSUMDB=off", "GOTOOLCHAIN=local", "GO111MODULE=on")
	if b, err := cmd.CombinedOutput(); err != nil {
		return fmt.Errorf("building the %s harness failed: %v\n%s", pkg, err, b)
	}
	return nil
}
