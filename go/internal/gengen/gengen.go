// Package gengen generates multi-package programs biased to what feeds ordered containers inside the compiler
// (C17): many generic instances reached along different paths, nested instantiations, anonymous struct types
// shared across functions and packages, closures, method expressions, several packages, and - in the
// multi-main variant - several main packages sharing one generic library with different instantiations.
package gengen

import (
	"fmt"
	"sort"
	"strings"

	"verif/internal/rng"
)

type Program struct {
	Files    map[string]string
	Mains    []string // directories (relative) holding a main package
	Features map[string]int
}

const lib = `package g

type Number interface {
	~int | ~int32 | ~float64
}

type Pair[K comparable, V any] struct {
	Key K
	Val V
}

func MakePair[K comparable, V any](k K, v V) Pair[K, V] { return Pair[K, V]{k, v} }

type List[T any] struct{ items []T }

func (l *List[T]) Push(x T) { l.items = append(l.items, x) }
func (l List[T]) Len() int   { return len(l.items) }
func (l List[T]) First() T  { return l.items[0] }

func Map[T, U any](xs []T, f func(T) U) []U {
	var out []U
	for _, x := range xs {
		out = append(out, f(x))
	}
	return out
}

func Sum[T Number](xs []T) T {
	var s T
	for _, x := range xs {
		s += x
	}
	return s
}

type Box[T any] struct{ V T }

func (b Box[T]) Get() T { return b.V }

func Nest[T any](x T) Box[List[T]] {
	var l List[T]
	l.Push(x)
	return Box[List[T]]{l}
}

func Zero[T any]() T {
	var z T
	return z
}

func Keys[K comparable, V any](m map[K]V) int {
	var es []Pair[K, V]
	for k, v := range m {
		es = append(es, Pair[K, V]{k, v})
	}
	return len(es)
}

func Describe[T any](x T) string {
	switch any(x).(type) {
	case int:
		return "int"
	case string:
		return "string"
	case float64:
		return "float64"
	}
	return "other"
}
`

var anyPool = []string{"int", "string", "float64", "int32", "[]int", "map[string]int", "struct{ A int }", "*int", "g.Box[int]", "g.Pair[string, int]", "[2]int", "func(int) int", "struct {\n\t\tA int\n\t\tB string\n\t}", "g.List[string]", "[]g.Box[float64]", "chan int", "interface{ M() }"}
var cmpPool = []string{"int", "string", "float64", "int32", "struct{ A int }", "*int", "[2]int", "g.Box[int]", "bool", "g.Pair[int, int]"}
var numPool = []string{"int", "int32", "float64", "myInt"}

type gen struct {
	r    *rng.R
	feat map[string]int
	tmp  int
}

func (g *gen) stmt() string {
	g.tmp++
	any1 := anyPool[g.r.Intn(len(anyPool))]
	any2 := anyPool[g.r.Intn(len(anyPool))]
	cmp := cmpPool[g.r.Intn(len(cmpPool))]
	switch g.r.Intn(14) {
	case 0:
		g.feat["inst:pair"]++
		return fmt.Sprintf("_ = g.MakePair[%s, %s](g.Zero[%s](), g.Zero[%s]())", cmp, any1, cmp, any1)
	case 1:
		g.feat["inst:list"]++
		return fmt.Sprintf("var l%d g.List[%s]\n\tl%d.Push(g.Zero[%s]())\n\tn += l%d.Len()", g.tmp, any1, g.tmp, any1, g.tmp)
	case 2:
		g.feat["inst:map-func"]++
		return fmt.Sprintf("n += len(g.Map[%s, %s]([]%s{g.Zero[%s]()}, func(%s) %s { return g.Zero[%s]() }))", any1, any2, any1, any1, any1, any2, any2)
	case 3:
		g.feat["inst:nested"]++
		return fmt.Sprintf("b%d := g.Nest[%s](g.Zero[%s]())\n\tn += b%d.Get().Len()", g.tmp, any1, any1, g.tmp)
	case 4:
		g.feat["inst:method-expr"]++
		return fmt.Sprintf("f%d := (*g.List[%s]).Push\n\t_ = f%d", g.tmp, any1, g.tmp)
	case 5:
		g.feat["inst:type-assert"]++
		return fmt.Sprintf("var x%d interface{} = g.Box[%s]{}\n\tif _, ok := x%d.(g.Box[%s]); ok {\n\t\tn++\n\t}", g.tmp, any1, g.tmp, any1)
	case 6:
		g.feat["inst:sum"]++
		num := numPool[g.r.Intn(len(numPool))]
		return fmt.Sprintf("n += int(g.Sum[%s]([]%s{1, 2, 3}))", num, num)
	case 7:
		g.feat["anon-struct"]++
		return fmt.Sprintf("var a%d struct {\n\t\tA int\n\t\tB string\n\t}\n\ta%d.A = %d\n\tn += a%d.A + len(a%d.B)", g.tmp, g.tmp, g.r.Intn(9), g.tmp, g.tmp)
	case 8:
		g.feat["closures"]++
		return fmt.Sprintf("c%d := func(k int) func() int { e := k * 2; return func() int { e++; return e + n } }(%d)\n\tn += c%d() + c%d()", g.tmp, g.r.Intn(5), g.tmp, g.tmp)
	case 9:
		g.feat["inst:keys"]++
		return fmt.Sprintf("n += g.Keys[%s, %s](map[%s]%s{})", cmp, any1, cmp, any1)
	case 10:
		g.feat["inst:local-generic"]++
		return fmt.Sprintf("n += len(local[%s](g.Zero[%s](), %d))", any1, any1, 1+g.r.Intn(3))
	case 11:
		g.feat["inst:through-generic-wrapper"]++
		return fmt.Sprintf("n += Wrap[%s](g.Zero[%s]()).Get().Len() + len(g.Describe[%s](PairUp[%s, %s](g.Zero[%s](), g.Zero[%s]()).Val.V))", any1, any1, any2, cmp, any2, cmp, any2)
	default:
		g.feat["inst:describe"]++
		return fmt.Sprintf("n += len(g.Describe[%s](g.Zero[%s]()))", any1, any1)
	}
}

func (g *gen) funcs(pkg string, nf int) (string, []string) {
	var b strings.Builder
	var names []string
	b.WriteString("type myInt int\n\nfunc local[T any](x T, k int) []T {\n\tout := make([]T, k)\n\tfor i := range out {\n\t\tout[i] = x\n\t}\n\treturn out\n}\n\n")
	// generic code of this package that instantiates generics of package g with its own type parameters:
	// the instances of g are then discovered while processing another package's instances
	b.WriteString("func Wrap[T any](x T) g.Box[g.List[T]] { return g.Nest(x) }\n\nfunc PairUp[K comparable, V any](k K, v V) g.Pair[K, g.Box[V]] {\n\treturn g.MakePair(k, g.Box[V]{V: v})\n}\n\n")
	for i := 0; i < nf; i++ {
		name := fmt.Sprintf("F%d", i)
		names = append(names, name)
		fmt.Fprintf(&b, "func %s() int {\n\tn := %d\n", name, i)
		ns := 2 + g.r.Intn(6)
		for k := 0; k < ns; k++ {
			b.WriteString("\t" + g.stmt() + "\n")
		}
		b.WriteString("\treturn n\n}\n\n")
	}
	return b.String(), names
}

// Generate draws one program. multi: two main packages (cmd/a, cmd/b) sharing the library and one user package.
func Generate(r *rng.R, multi bool, module string) *Program {
	g := &gen{r: r, feat: map[string]int{}}
	p := &Program{Files: map[string]string{"go.mod": "module " + module + "\n\ngo 1.20\n", "g/g.go": lib}, Features: g.feat}
	nu := 1 + r.Intn(3)
	var userCalls []string
	for u := 0; u < nu; u++ {
		body, names := g.funcs(fmt.Sprintf("u%d", u), 1+r.Intn(4))
		// split a user package over two files sometimes
		src := fmt.Sprintf("package u%d\n\nimport \""+module+"/g\"\n\nvar _ = g.Zero[int]\n\n%s", u, body)
		p.Files[fmt.Sprintf("u%d/u%d.go", u, u)] = src
		if u == 0 && r.Chance(1, 2) {
			g.feat["inc-js-files"]++
			p.Files["u0/b_first.inc.js"] = "$global.genIncOrder = ($global.genIncOrder || \"\") + \"b\";\n"
			p.Files["u0/a_second.inc.js"] = "$global.genIncOrder = ($global.genIncOrder || \"\") + \"a\";\n"
			p.Files["u0/zz.inc.js"] = "$global.genIncOrder = ($global.genIncOrder || \"\") + \"z\";\n"
		}
		for _, n := range names {
			userCalls = append(userCalls, fmt.Sprintf("u%d.%s()", u, n))
		}
	}
	mkMain := func(dir string, calls []string) {
		body, names := g.funcs("main", 1+r.Intn(3))
		var b strings.Builder
		b.WriteString("package main\n\nimport (\n\t\"" + module + "/g\"\n")
		used := map[string]bool{}
		for _, c := range calls {
			used[strings.SplitN(c, ".", 2)[0]] = true
		}
		var us []string
		for u := range used {
			us = append(us, u)
		}
		sort.Strings(us)
		for _, u := range us {
			fmt.Fprintf(&b, "\t\"%s/%s\"\n", module, u)
		}
		b.WriteString(")\n\nvar _ = g.Zero[int]\n\n")
		b.WriteString(body)
		b.WriteString("func main() {\n")
		for _, n := range names {
			fmt.Fprintf(&b, "\tprintln(%s())\n", n)
		}
		for _, c := range calls {
			fmt.Fprintf(&b, "\tprintln(%s)\n", c)
		}
		b.WriteString("\tprintln(\"END\")\n}\n")
		p.Files[dir+"main.go"] = b.String()
		p.Mains = append(p.Mains, strings.TrimSuffix(dir, "/"))
	}
	if multi {
		g.feat["multi-main"]++
		half := len(userCalls) / 2
		mkMain("cmd/a/", userCalls[:half+1])
		mkMain("cmd/b/", userCalls[half:])
	} else {
		mkMain("", userCalls)
		p.Mains = []string{"."}
	}
	return p
}

// GeneratePlainMulti draws a module with two main packages sharing a NON-generic library: cmd/a reaches an
// otherwise dead, unexported function of the library through go:linkname, cmd/b does not. Building one after the
// other in a session must not change either output (no generic instances are involved, so known finding F3
// cannot be the cause of a difference here).
func GeneratePlainMulti(r *rng.R, module string) *Program {
	p := &Program{Files: map[string]string{"go.mod": "module " + module + "\n\ngo 1.20\n"}, Features: map[string]int{"plain-multi-main": 1}}
	var lib strings.Builder
	lib.WriteString("package lib\n\nvar counter int\n\n")
	n := 3 + r.Intn(4)
	for i := 0; i < n; i++ {
		fmt.Fprintf(&lib, "func F%d(x int) int {\n\tcounter += %d\n\treturn x*%d + helper%d(x)\n}\n\nfunc helper%d(x int) int { return x + %d }\n\n", i, i+1, 2+r.Intn(5), i, i, r.Intn(50))
	}
	lib.WriteString("// hidden is reachable only through a go:linkname directive of one of the commands.\nfunc hidden(x int) int { return deep(x) * 3 }\n\nfunc deep(x int) int {\n\ttype local struct{ a, b int }\n\tl := local{x, x + 1}\n\treturn l.a + l.b\n}\n")
	p.Files["lib/lib.go"] = lib.String()
	mk := func(dir string, link bool, calls []int) {
		var b strings.Builder
		b.WriteString("package main\n\nimport (\n")
		if link {
			b.WriteString("\t_ \"unsafe\"\n\n")
		}
		fmt.Fprintf(&b, "\t\"%s/lib\"\n)\n\n", module)
		if link {
			fmt.Fprintf(&b, "//go:linkname hiddenA %s/lib.hidden\nfunc hiddenA(x int) int\n\n", module)
		}
		b.WriteString("func main() {\n\tn := 0\n")
		for _, c := range calls {
			fmt.Fprintf(&b, "\tn += lib.F%d(%d)\n", c, r.Intn(9))
		}
		if link {
			b.WriteString("\tn += hiddenA(4)\n")
		}
		b.WriteString("\tprintln(n)\n\tprintln(\"END\")\n}\n")
		p.Files[dir+"main.go"] = b.String()
		p.Mains = append(p.Mains, strings.TrimSuffix(dir, "/"))
	}
	var ca, cb []int
	for i := 0; i < n; i++ {
		if r.Bool() {
			ca = append(ca, i)
		} else {
			cb = append(cb, i)
		}
	}
	if len(ca) == 0 {
		ca = []int{0}
	}
	if len(cb) == 0 {
		cb = []int{n - 1}
	}
	mk("cmd/a/", true, ca)
	mk("cmd/b/", false, cb)
	return p
}
