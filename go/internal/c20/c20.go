// Package c20 wires the C20 check: the build cache over the simulated file system.
package c20

import (
	"verif/internal/evidence"
	"verif/internal/gharness"
	"verif/internal/govl"
	"verif/internal/known"
)

func Spec(tier string, seed int64, workers int) gharness.Spec {
	sp := gharness.Spec{Property: "C20", Tier: tier, Seed: seed, Workers: workers, Pkg: "./build/cache", Level: "fault_enumeration",
		Setup: func(o *govl.Overlay) error {
			if err := o.AddFromVerif("simfs/simfs.go", "internal/verifsimfs/simfs.go"); err != nil {
				return err
			}
			if err := o.AddFromVerif("c20/c20_test.go.txt", "build/cache/zz_verif_c20_test.go"); err != nil {
				return err
			}
			return o.SwapImport("build/cache/cache.go", "os", "github.com/gopherjs/gopherjs/internal/verifsimfs")
		},
		EnumTests:  []string{"TestVerifCrashEnum", "TestVerifDamageEnum", "TestVerifIOFaultEnum", "TestVerifKeys"},
		RapidTests: []string{"TestVerifRapid"},
		Procs:      workers,
		Rule: "enumeration: one evaluation = one Load judged after one enumerated fault point (a crash before every file-system call of a Store under the kill model and several seeded power-loss resolutions; truncation at every length and bit flips at every byte of a stored entry; an I/O error / short write / ENOSPC at every call of Store and every call of Load; every ordered pair of configurations x import paths; a staleness grid); " +
			"exploration: one evaluation = one Load inside a rapid-generated sequence of Store/Load/Clear/damage/crash-restart/I/O-fault/concurrent-process operations; distinct_nontrivial counts enumerated points in which the fault actually fired plus rapid sequences with at least one fault, deduplicated by their operation log",
		Real: []string{"build/cache Store/Load/serialize/deserialize/key derivation from /repo working tree (cache.go rebuilt with its os import bound to the simulated file system)", "compress/gzip, encoding/gob"},
		Stub: []string{"file system (verifsimfs: in-memory, fault plan, crash models, seeded scheduler for concurrent processes)", "the cached value (a 4-field gob blob instead of sources.Sources in the state-machine tests)"},
		Assumptions: []string{
			"power-loss model: metadata operations are ordered and kept, un-synced file data is torn at 512-byte granularity, truncated or zero-filled",
			"configurations that differ only by path normalisation (//, /./, /../ inside GOROOT/GOPATH) are not considered different",
			"a miss is always allowed under faults; in fault-free sequences a Load after a completed Store under the same key with a not-newer source time must hit",
		},
	}
	if tier == "thorough" {
		sp.RapidChecks = 40000
	} else {
		sp.RapidChecks = 1500
	}
	sp.KnownMatch = func(kf *known.File, class, msg, point string) string { return "" }
	return sp
}

func Run(tier string, seed int64, workers int) int { return gharness.Run(Spec(tier, seed, workers)) }

func Replay(rp *evidence.Replay) int { return gharness.Replay(Spec("quick", rp.Seed, 1), rp) }
