// Package c20 wires the C20 check: the build cache over the simulated file system.
package c20

import (
	"encoding/json"
	"fmt"
	"os"
	"path/filepath"
	"time"

	"verif/internal/corpus"
	"verif/internal/evidence"
	"verif/internal/gharness"
	"verif/internal/govl"
	"verif/internal/jbuild"
	"verif/internal/known"
)

func Spec(tier string, seed int64, workers int) gharness.Spec {
	sp := gharness.Spec{Property: "C20", Tier: tier, Seed: seed, Workers: workers, Pkg: "./build/cache", Level: "fault_enumeration",
		Setup: func(o *govl.Overlay) error {
			if err := o.AddFromVerif("simfs/simfs.go", "internal/verifsimfs/simfs.go"); err != nil {
				return err
			}
			if err := o.AddFromVerif("c20/c20_test.go.txt", "build/cache/zz_verif_c20_test.go"); err != nil {
				return err
			}
			return o.SwapImport("build/cache/cache.go", "os", "github.com/gopherjs/gopherjs/internal/verifsimfs")
		},
		EnumTests:  []string{"TestVerifCrashEnum", "TestVerifDamageEnum", "TestVerifIOFaultEnum", "TestVerifKeys"},
		RapidTests: []string{"TestVerifRapid"},
		Procs:      workers,
		Rule: "enumeration: one evaluation = one Load judged after one enumerated fault point (a crash before every file-system call of a Store under the kill model and several seeded power-loss resolutions; truncation at every length and bit flips at every byte of a stored entry; an I/O error / short write / ENOSPC at every call of Store and every call of Load; every ordered pair of configurations x import paths; a staleness grid); " +
			"exploration: one evaluation = one Load inside a rapid-generated sequence of Store/Load/Clear/damage/crash-restart/I/O-fault/concurrent-process operations; distinct_nontrivial counts enumerated points in which the fault actually fired plus rapid sequences with at least one fault, deduplicated by their operation log",
		Real: []string{"build/cache Store/Load/serialize/deserialize/key derivation from /repo working tree (cache.go rebuilt with its os import bound to the simulated file system)", "compress/gzip, encoding/gob"},
		Stub: []string{"file system (verifsimfs: in-memory, fault plan, crash models, seeded scheduler for concurrent processes)", "the cached value (a 4-field gob blob instead of sources.Sources in the state-machine tests)"},
		Assumptions: []string{
			"power-loss model: metadata operations are ordered and kept, un-synced file data is torn at 512-byte granularity, truncated or zero-filled",
			"configurations that differ only by path normalisation (//, /./, /../ inside GOROOT/GOPATH) are not considered different",
			"a miss is always allowed under faults; in fault-free sequences a Load after a completed Store under the same key with a not-newer source time must hit",
		},
	}
	if tier == "thorough" {
		sp.RapidChecks = 40000
	} else {
		sp.RapidChecks = 1500
	}
	sp.KnownMatch = func(kf *known.File, class, msg, point string) string { return "" }
	return sp
}

// e2eSpec is the end-to-end facet: the real build.Session with the cache switched on, over the simulated disk.
func e2eSpec(tier string, seed int64, workers int) gharness.Spec {
	n, budget := 8, 10*time.Minute
	if tier == "thorough" {
		n, budget = 80, 45*time.Minute
	}
	return gharness.Spec{Property: "C20", Tier: tier, Seed: seed, Workers: workers, Pkg: "./build", Level: "fault_enumeration", EnumShards: workers, Timeout: 3 * time.Hour, Budget: budget,
		EnumTests: []string{"TestVerifCacheE2E"},
		Prepare: func(scratch string) ([]string, error) {
			list, err := corpus.Generate(filepath.Join(scratch, "corpus"), seed+20, n)
			if err != nil {
				return nil, err
			}
			b, _ := json.Marshal(list)
			lp := filepath.Join(scratch, "corpus.json")
			if err := os.WriteFile(lp, b, 0o644); err != nil {
				return nil, err
			}
			return []string{"VERIF_C17_LIST=" + lp}, nil
		},
		Setup: func(o *govl.Overlay) error {
			if err := o.AddFromVerif("simfs/simfs.go", "internal/verifsimfs/simfs.go"); err != nil {
				return err
			}
			if err := o.AddFromVerif("c20/c20e2e_test.go.txt", "build/zz_verif_c20e2e_test.go"); err != nil {
				return err
			}
			return o.SwapImport("build/cache/cache.go", "os", "github.com/gopherjs/gopherjs/internal/verifsimfs")
		},
		KnownMatch: func(kf *known.File, class, msg, point string) string { return "" },
	}
}

func Run(tier string, seed int64, workers int) int {
	start := time.Now()
	code, ev := gharness.RunCollect(Spec(tier, seed, workers))
	if ev == nil {
		return 2
	}
	code2, ev2 := gharness.RunCollect(e2eSpec(tier, seed, workers))
	if ev2 == nil {
		return 2
	}
	ev.Coverage["evaluations"] = ev.Coverage["evaluations"].(int) + ev2.Coverage["evaluations"].(int)
	ev.Coverage["distinct_nontrivial"] = ev.Coverage["distinct_nontrivial"].(int) + ev2.Coverage["distinct_nontrivial"].(int)
	ev.Coverage["end_to_end_counters"] = ev2.Coverage["counters"]
	ev.Coverage["rule"] = ev.Coverage["rule"].(string) + "; end-to-end: one evaluation = one in-process build of a corpus program by the real build.Session with the cache on (cold, warm, over a seeded damaged cache directory, after a crash at a seeded file-system call of the cold build), its output hashes compared with the build from source"
	ev.Violations += ev2.Violations
	ev.WallS = time.Since(start).Seconds()
	if err := ev.Write(jbuild.VerifDir()); err != nil {
		fmt.Fprintln(os.Stderr, err)
		return 2
	}
	if code == 2 || code2 == 2 {
		return 2
	}
	if code == 1 || code2 == 1 {
		return 1
	}
	return 0
}

func Replay(rp *evidence.Replay) int {
	if rp.FoundAt != "" && len(rp.FoundAt) > 0 && containsE2E(rp.FoundAt) {
		return gharness.Replay(e2eSpec(tierOf(rp), rp.Seed, 1), rp)
	}
	return gharness.Replay(Spec("quick", rp.Seed, 1), rp)
}

func containsE2E(s string) bool {
	for i := 0; i+len("TestVerifCacheE2E") <= len(s); i++ {
		if s[i:i+len("TestVerifCacheE2E")] == "TestVerifCacheE2E" {
			return true
		}
	}
	return false
}

// tierOf recovers the tier a replay file was found in (the corpus size depends on it).
func tierOf(rp *evidence.Replay) string {
	if len(rp.FoundAt) >= 8 && rp.FoundAt[:8] == "thorough" {
		return "thorough"
	}
	return "quick"
}
