package chanmodel

import (
	"fmt"

	"verif/internal/rng"
)

// GenConfig is the swarm configuration of one batch of scenarios: which operation kinds are enabled and
// the size limits. Every field is drawn from the PRNG by NewGenConfig.
type GenConfig struct {
	MaxG, MaxOps, MaxCh int
	Kinds               []string // enabled op kinds (weights by repetition)
	NilChan             bool     // may reference the nil channel
	Spawn               bool
	Goexit, Panic       bool
	DeepGoexit          bool
	Callbacks           int // max callbacks (0 for plain C03 scenarios)
	CloseNil            bool
}

var allKinds = []string{"send", "recv", "recv2", "close", "sel", "range", "len", "cap", "gosched", "sleep", "yield", "ngo"}

func NewGenConfig(r *rng.R, callbacks bool) GenConfig {
	c := GenConfig{MaxG: 2 + r.Intn(3), MaxOps: 2 + r.Intn(4), MaxCh: 1 + r.Intn(3)}
	// always keep the core pair so that something communicates
	c.Kinds = []string{"send", "recv", "send", "recv"}
	for _, k := range allKinds {
		if r.Chance(1, 2) {
			c.Kinds = append(c.Kinds, k)
			if k == "sel" || k == "close" {
				c.Kinds = append(c.Kinds, k)
			}
		}
	}
	c.NilChan = r.Chance(1, 4)
	c.Spawn = r.Chance(1, 3)
	c.Goexit = r.Chance(1, 5)
	c.DeepGoexit = r.Chance(1, 2)
	c.Panic = r.Chance(1, 8)
	c.CloseNil = r.Chance(1, 6)
	if callbacks {
		c.Callbacks = 1 + r.Intn(3)
		if r.Chance(1, 2) {
			c.Kinds = append(c.Kinds, "ident") // the same Go function externalises to the same JavaScript function
		}
		// An uncaught panic of a goroutine that happens to be run from inside a callback's JavaScript stack is
		// delivered to that JavaScript caller; what the caller does with it is environment behaviour, outside
		// the Go/GopherJS common subset. Not generated together with callbacks.
		c.Panic = false
	}
	return c
}

func (c *GenConfig) pickChan(r *rng.R, n int) int {
	if c.NilChan && r.Chance(1, 8) {
		return -1
	}
	return r.Intn(n)
}

func (c *GenConfig) genOp(r *rng.R, nch int, uniq *int) Op {
	k := c.Kinds[r.Intn(len(c.Kinds))]
	op := Op{K: k, R: [2]int{-1, -1}, S: [2][2]int{{-1, 0}, {-1, 0}}}
	next := func() int { *uniq++; return *uniq }
	switch k {
	case "send":
		op.C = c.pickChan(r, nch)
		op.V = next()
	case "recv", "recv2", "range", "len", "cap":
		op.C = c.pickChan(r, nch)
	case "close":
		op.C = r.Intn(nch)
		if c.CloseNil && r.Chance(1, 6) {
			op.C = -1
		}
	case "sleep":
		op.Ms = []int{0, 1, 2, 5, 20}[r.Intn(5)]
	case "sel":
		n := 1 + r.Intn(4)
		for i := 0; i < n; i++ {
			slot := r.Intn(4)
			cc := c.pickChan(r, nch)
			if slot < 2 {
				op.R[slot] = cc
			} else {
				op.S[slot-2] = [2]int{cc, next()}
			}
		}
		op.D = r.Chance(1, 3)
	}
	return op
}

// Generate draws one scenario.
func Generate(r *rng.R, c *GenConfig) *Scenario {
	sc := &Scenario{}
	nch := 1 + r.Intn(c.MaxCh)
	for i := 0; i < nch; i++ {
		sc.Caps = append(sc.Caps, []int{0, 0, 1, 2}[r.Intn(4)])
	}
	ng := 2 + r.Intn(c.MaxG-1)
	uniq := 0
	sc.Gs = make([][]Op, ng)
	for g := 0; g < ng; g++ {
		n := 1 + r.Intn(c.MaxOps)
		for i := 0; i < n; i++ {
			sc.Gs[g] = append(sc.Gs[g], c.genOp(r, nch, &uniq))
		}
	}
	// who starts whom
	sc.Start = []int{}
	spawnedByCb := map[int]bool{}
	ncb := 0
	if c.Callbacks > 0 {
		ncb = 1 + r.Intn(c.Callbacks)
	}
	for g := 1; g < ng; g++ {
		switch {
		case c.Spawn && r.Chance(1, 3):
			// spawned by an operation of a lower-numbered goroutine
			sp := r.Intn(g)
			at := r.Intn(len(sc.Gs[sp]) + 1)
			op := Op{K: "spawn", G: g, R: [2]int{-1, -1}, S: [2][2]int{{-1, 0}, {-1, 0}}}
			ops := append([]Op{}, sc.Gs[sp][:at]...)
			ops = append(ops, op)
			sc.Gs[sp] = append(ops, sc.Gs[sp][at:]...)
		case ncb > 0 && r.Chance(1, 3):
			spawnedByCb[g] = true
		default:
			sc.Start = append(sc.Start, g)
		}
	}
	// terminal specials on non-main goroutines
	for g := 1; g < ng; g++ {
		if c.Goexit && r.Chance(1, 3) {
			sc.Gs[g] = append(sc.Gs[g], Op{K: "goexit", D: c.DeepGoexit && r.Bool(), R: [2]int{-1, -1}, S: [2][2]int{{-1, 0}, {-1, 0}}})
		} else if c.Panic && r.Chance(1, 4) {
			sc.Gs[g] = append(sc.Gs[g], Op{K: "panic", R: [2]int{-1, -1}, S: [2][2]int{{-1, 0}, {-1, 0}}, X: c.Goexit && r.Chance(1, 3)})
		} else if n := len(sc.Gs[g]); c.Goexit && n > 0 && r.Chance(1, 4) {
			// the last operation runs in a deferred call during Goexit
			if k := sc.Gs[g][n-1].K; k != "spawn" && k != "range" {
				sc.Gs[g][n-1].X = true
			}
		}
	}
	// callbacks
	var pendingSpawn []int
	for g := range spawnedByCb {
		pendingSpawn = append(pendingSpawn, g)
	}
	sortInts(pendingSpawn)
	for i := 0; i < ncb || len(pendingSpawn) > 0; i++ {
		var cb Callback
		switch {
		case len(pendingSpawn) > 0:
			cb = Callback{Kind: "spawn", G: pendingSpawn[0]}
			pendingSpawn = pendingSpawn[1:]
		case r.Chance(1, 4):
			cb = Callback{Kind: "echo"}
			if r.Bool() {
				cb = Callback{Kind: "echoobj"}
			}
		default:
			op := c.genOp(r, nch, &uniq)
			for op.K == "range" || op.K == "sleep" || op.K == "gosched" || op.K == "yield" {
				op = c.genOp(r, nch, &uniq)
			}
			cb = Callback{Kind: "chanop", Op: &op, Recover: r.Bool()}
			if !cb.Recover && r.Chance(1, 3) {
				cb.Deferred = true
			}
		}
		sc.Cbs = append(sc.Cbs, cb)
	}
	return sc
}

func sortInts(a []int) {
	for i := 1; i < len(a); i++ {
		for j := i; j > 0 && a[j] < a[j-1]; j-- {
			a[j], a[j-1] = a[j-1], a[j]
		}
	}
}

// Features lists syntactic facts about a scenario that known-finding triggers and evidence refer to.
func (sc *Scenario) Features() map[string]bool {
	f := map[string]bool{}
	each := func(op *Op, inCb bool) {
		f["op:"+op.K] = true
		if op.K == "close" && op.C < 0 {
			f["close_nil"] = true
		}
		if op.K == "goexit" && op.D {
			f["goexit_deep"] = true
		}
		if op.X {
			f["op_in_deferred_call_during_goexit"] = true
			f["op_in_deferred_call_during_goexit:"+op.K] = true
		}
		if op.K == "sel" {
			n := 0
			for _, c := range selCases(op) {
				if c.c >= 0 {
					n++
				}
			}
			if n >= 2 {
				f["select_multi"] = true
			}
			if op.D {
				f["select_default"] = true
			}
		}
	}
	for g := range sc.Gs {
		for i := range sc.Gs[g] {
			each(&sc.Gs[g][i], false)
		}
	}
	for i := range sc.Cbs {
		f["cb:"+sc.Cbs[i].Kind] = true
		if sc.Cbs[i].Op != nil {
			each(sc.Cbs[i].Op, true)
		}
	}
	return f
}

// Normalise replaces nil slices by empty ones so that the JSON handed to the workload never holds null.
func (sc *Scenario) Normalise() {
	if sc.Start == nil {
		sc.Start = []int{}
	}
	if sc.Caps == nil {
		sc.Caps = []int{}
	}
	for g := range sc.Gs {
		if sc.Gs[g] == nil {
			sc.Gs[g] = []Op{}
		}
		for i := range sc.Gs[g] {
			if i != len(sc.Gs[g])-1 { // shrinking may have removed the operations behind it
				sc.Gs[g][i].X = false
			}
		}
	}
}

// Validate checks the harness's own well-formedness rules (every goroutine started exactly once, indices in
// range, specials only as last operation of a non-main goroutine).
func (sc *Scenario) Validate() error {
	if len(sc.Gs) == 0 {
		return fmt.Errorf("no main goroutine")
	}
	started := make([]int, len(sc.Gs))
	started[0] = 1
	for _, s := range sc.Start {
		if s <= 0 || s >= len(sc.Gs) {
			return fmt.Errorf("start index %d out of range", s)
		}
		started[s]++
	}
	chk := func(c int) error {
		if c < -1 || c >= len(sc.Caps) {
			return fmt.Errorf("channel index %d out of range", c)
		}
		return nil
	}
	chkOp := func(op *Op) error {
		switch op.K {
		case "sel":
			for _, c := range selCases(op) {
				if err := chk(c.c); err != nil {
					return err
				}
			}
		default:
			if err := chk(op.C); err != nil {
				return err
			}
		}
		return nil
	}
	for g := range sc.Gs {
		for i := range sc.Gs[g] {
			op := &sc.Gs[g][i]
			if err := chkOp(op); err != nil {
				return err
			}
			switch op.K {
			case "spawn":
				if op.G <= 0 || op.G >= len(sc.Gs) {
					return fmt.Errorf("spawn target %d out of range", op.G)
				}
				started[op.G]++
			case "goexit", "panic":
				if g == 0 || i != len(sc.Gs[g])-1 {
					return fmt.Errorf("%s must be the last operation of a non-main goroutine", op.K)
				}
			}
			if op.X && (g == 0 || i != len(sc.Gs[g])-1 || op.K == "goexit" || op.K == "spawn" || op.K == "range") {
				return fmt.Errorf("an operation run by a deferred call during Goexit must be the last one of a non-main goroutine")
			}
		}
	}
	for i := range sc.Cbs {
		cb := &sc.Cbs[i]
		switch cb.Kind {
		case "spawn":
			if cb.G <= 0 || cb.G >= len(sc.Gs) {
				return fmt.Errorf("callback spawn target out of range")
			}
			started[cb.G]++
		case "chanop":
			if cb.Op == nil {
				return fmt.Errorf("chanop callback without op")
			}
			if cb.Deferred && cb.Recover {
				return fmt.Errorf("a chanop callback is either recovering or deferred")
			}
			if err := chkOp(cb.Op); err != nil {
				return err
			}
		}
	}
	for g, n := range started {
		if n != 1 {
			return fmt.Errorf("goroutine %d is started %d times", g, n)
		}
	}
	return nil
}
