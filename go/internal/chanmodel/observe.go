package chanmodel

import (
	"encoding/json"
	"fmt"
	"strings"

	"verif/internal/simpool"
)

type rawRes struct {
	V     *int    `json:"v"`
	Ok    *bool   `json:"ok"`
	I     *int    `json:"i"`
	N     *int    `json:"n"`
	Same  *bool   `json:"same"`
	Panic *string `json:"panic"`
	A     *int    `json:"a"`
	S     *string `json:"s"`
}

// canon renders a recorded result in the model's result vocabulary, by operation kind.
func canon(op *Op, raw json.RawMessage) (string, error) {
	var r rawRes
	if len(raw) > 0 && string(raw) != "null" {
		if err := json.Unmarshal(raw, &r); err != nil {
			return "", err
		}
	}
	if r.Panic != nil {
		return ResPanic(*r.Panic), nil
	}
	need := func(ok bool) error {
		if !ok {
			return fmt.Errorf("result %s lacks fields for op %s", raw, op.K)
		}
		return nil
	}
	switch op.K {
	case "send", "close", "gosched", "sleep", "yield", "spawn":
		return "", nil
	case "recv":
		if err := need(r.V != nil); err != nil {
			return "", err
		}
		return ResRecv(*r.V), nil
	case "recv2":
		if err := need(r.V != nil && r.Ok != nil); err != nil {
			return "", err
		}
		return ResRecv2(*r.V, *r.Ok), nil
	case "len", "cap", "range", "ngo":
		if err := need(r.N != nil); err != nil {
			return "", err
		}
		return ResN(*r.N), nil
	case "ident":
		if err := need(r.Same != nil); err != nil {
			return "", err
		}
		return fmt.Sprintf("same=%v", *r.Same), nil
	case "sel":
		if err := need(r.I != nil); err != nil {
			return "", err
		}
		if *r.I == 0 || *r.I == 1 {
			if err := need(r.V != nil && r.Ok != nil); err != nil {
				return "", err
			}
			return ResSel(*r.I, *r.V, *r.Ok), nil
		}
		return ResSel(*r.I, 0, false), nil
	}
	if op.K == "goexit" {
		return "", fmt.Errorf("operation returned after runtime.Goexit")
	}
	return "", fmt.Errorf("unknown op kind %q", op.K)
}

type Observation struct {
	Outcome string
	Ending  string
	Exit    bool
	// Malformed is set when the history itself is not well formed (e.g. ret without inv); always a violation.
	Malformed string
}

const deadlockLine = "ERR fatal error: all goroutines are asleep - deadlock!"

// Observe summarises one simulated run in the model's outcome vocabulary.
func Observe(sc *Scenario, res *simpool.Result) Observation {
	var ob Observation
	gs := make([]GOutcome, len(sc.Gs))
	for i := range gs {
		gs[i].Partial = []int{}
	}
	cbs := make([]string, len(sc.Cbs))
	cbGo := make([]string, len(sc.Cbs)) // Go-side recorded result of each callback
	bad := func(f string, a ...any) {
		if ob.Malformed == "" {
			ob.Malformed = fmt.Sprintf(f, a...)
		}
	}
	for _, h := range res.Hist {
		if len(h.A) < 3 {
			bad("short history record")
			continue
		}
		var first any
		json.Unmarshal(h.A[0], &first)
		if s, ok := first.(string); ok && s == "cb" {
			continue // simulator-side callback bracket, evaluated through res.Cbs
		}
		var g, pc int
		var ph string
		if json.Unmarshal(h.A[0], &g) != nil || json.Unmarshal(h.A[1], &pc) != nil || json.Unmarshal(h.A[2], &ph) != nil {
			bad("unparsable history record %v", h.A)
			continue
		}
		var raw json.RawMessage
		if len(h.A) > 3 {
			raw = h.A[3]
		}
		if g < 0 {
			ci := -(g + 1)
			if ci >= len(sc.Cbs) {
				bad("callback index %d out of range", ci)
				continue
			}
			if ph == "ret" {
				cb := &sc.Cbs[ci]
				switch cb.Kind {
				case "echo", "echoobj":
					cbGo[ci] = cb.Kind
				case "spawn":
					cbGo[ci] = ""
				case "chanop":
					s, err := canon(cb.Op, raw)
					if err != nil {
						bad("callback %d: %v", ci, err)
					}
					cbGo[ci] = s
				}
			}
			continue
		}
		if g >= len(gs) {
			bad("goroutine index %d out of range", g)
			continue
		}
		G := &gs[g]
		switch ph {
		case "exit":
			ob.Exit = true
		case "inv":
			if G.InProgress || G.Done || pc != G.Pc {
				bad("g%d: inv of op %d out of order (at %d, inProgress=%v)", g, pc, G.Pc, G.InProgress)
			}
			G.InProgress = true
		case "rv":
			var v int
			json.Unmarshal(raw, &v)
			if !G.InProgress || pc != G.Pc {
				bad("g%d: range value outside its operation", g)
			}
			G.Partial = append(G.Partial, v)
		case "ret":
			if !G.InProgress || pc != G.Pc {
				bad("g%d: ret of op %d without matching inv (at %d)", g, pc, G.Pc)
				continue
			}
			if pc >= len(sc.Gs[g]) {
				bad("g%d: op index %d beyond script", g, pc)
				continue
			}
			s, err := canon(&sc.Gs[g][pc], raw)
			if err != nil {
				bad("g%d op %d: %v", g, pc, err)
			}
			G.Results = append(G.Results, s)
			G.InProgress = false
			G.Partial = []int{}
			G.Pc++
		case "done":
			if G.InProgress || pc != G.Pc || pc != len(sc.Gs[g]) {
				bad("g%d: done at %d out of order", g, pc)
			}
			if g != 0 { // main is done only once it has joined everybody (the exit record)
				G.Done = true
			}
		default:
			bad("unknown phase %q", ph)
		}
	}
	// goroutines that ended through Goexit never log done; the model calls them done as well. They are
	// recognisable by an invoked, un-returned goexit operation.
	for g := range gs {
		G := &gs[g]
		if G.InProgress && G.Pc < len(sc.Gs[g]) && sc.Gs[g][G.Pc].K == "goexit" {
			G.InProgress = false
			G.Done = true
		}
		// ... and so do those whose last operation was run by a deferred call during Goexit
		if n := len(sc.Gs[g]); g != 0 && n > 0 && sc.Gs[g][n-1].X && !G.InProgress && G.Pc == n {
			G.Done = true
		}
	}
	// callbacks as JavaScript saw them
	sharedCalls := 0
	for _, c := range res.Cbs {
		if c.Cb >= len(cbs) {
			bad("callback result index out of range")
			continue
		}
		cb := &sc.Cbs[c.Cb]
		if c.Thrown != nil {
			cbs[c.Cb] = "thrown:" + *c.Thrown
			continue
		}
		switch cb.Kind {
		case "echoobj":
			// j-th call with the shared object: n == j and the keys are n, k1..kj (j+1 of them), for the map
			// parameter and for the interface parameter alike; nothing written by an earlier callee survives
			sharedCalls++
			var r struct {
				A *int `json:"a"`
				B *int `json:"b"`
			}
			json.Unmarshal(c.Ret, &r)
			want := (sharedCalls+1)*1000 + sharedCalls
			if r.A == nil || r.B == nil || *r.A != want || *r.B != want {
				cbs[c.Cb] = fmt.Sprintf("ret:WRONG-ARGUMENTS call %d of the shared object saw %s, want a=b=%d", sharedCalls, string(c.Ret), want)
			} else {
				cbs[c.Cb] = "ret:echoobj"
			}
		case "echo":
			var r rawRes
			json.Unmarshal(c.Ret, &r)
			if r.A == nil || r.S == nil || *r.A != (1000+c.Cb)*2+1 || *r.S != fmt.Sprintf("arg%d!", c.Cb) {
				cbs[c.Cb] = "ret:WRONG-ECHO " + string(c.Ret)
			} else {
				cbs[c.Cb] = "ret:echo"
			}
		default:
			// the JavaScript-visible return value must be the object the Go side recorded
			s, err := canon(opOrNop(cb), c.Ret)
			if err != nil {
				bad("callback %d return: %v", c.Cb, err)
			}
			if s != cbGo[c.Cb] {
				bad("callback %d: JavaScript saw %q but Go recorded %q", c.Cb, s, cbGo[c.Cb])
			}
			cbs[c.Cb] = "ret:" + s
		}
	}
	// ending
	switch {
	case res.End == "drained" && ob.Exit:
		ob.Ending = "clean"
	case res.End == "drained":
		ob.Ending = "idle"
	case res.End == "exit:2" && hasLine(res.Out, deadlockLine):
		ob.Ending = "deadlock"
	case strings.HasPrefix(res.End, "uncaught:"):
		ob.Ending = res.End
	default:
		ob.Ending = "abnormal(" + res.End + ")"
	}
	if ob.Exit {
		gs[0].Done = true
	}
	ob.Outcome = outcomeString(ob.Ending, gs, cbs)
	return ob
}

func opOrNop(cb *Callback) *Op {
	if cb.Op != nil {
		return cb.Op
	}
	return &Op{K: "spawn"}
}

func hasLine(lines []string, want string) bool {
	for _, l := range lines {
		if l == want {
			return true
		}
	}
	return false
}
