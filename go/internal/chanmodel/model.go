// Package chanmodel is the executable reference model of Go channel / select / goroutine semantics
// (DESIGN.md Appendix A). For one small scenario it enumerates, exhaustively, every terminal outcome Go
// allows: any runnable goroutine may step, any parked partner may be chosen, any ready select case may
// fire. That is a superset of what any correct runtime does, so an observed outcome outside the set is
// non-Go behaviour. It never consults the implementation under test.
package chanmodel

import (
	"fmt"
	"sort"
	"strconv"
	"strings"
)

type Op struct {
	K  string    `json:"k"`
	C  int       `json:"c"`
	V  int       `json:"v"`
	R  [2]int    `json:"r"`
	S  [2][2]int `json:"s"`
	D  bool      `json:"d"`
	Ms int       `json:"ms"`
	G  int       `json:"g"`
	// X: the operation (the last one of a non-main goroutine) is executed by a deferred call that runs
	// because the goroutine called runtime.Goexit; the goroutine is alive until it completes.
	X bool `json:"x,omitempty"`
}

type Callback struct {
	Kind    string `json:"kind"` // echo | spawn | chanop
	G       int    `json:"g"`
	Op      *Op    `json:"op,omitempty"`
	Recover bool   `json:"recover"`
	// Deferred (chanop): the callback panics with PanicCbFirst and the operation is performed by one of its
	// deferred calls while that panic is in flight; what JavaScript catches is the last panic raised.
	Deferred bool `json:"deferred,omitempty"`
}

type Scenario struct {
	Caps  []int      `json:"caps"`
	Gs    [][]Op     `json:"gs"`
	Start []int      `json:"start"`
	Cbs   []Callback `json:"cbs,omitempty"`
}

const (
	PanicSendClosed  = "runtime error: send on closed channel"
	PanicCloseClosed = "runtime error: close of closed channel"
	PanicCloseNil    = "runtime error: close of nil channel"
	PanicCbFirst     = "cbfirst"
	PanicCbBlock     = "runtime error: cannot block in JavaScript callback, fix by wrapping code in goroutine"
)

// goroutine status
const (
	stNew    = iota // not spawned yet
	stReady         // will execute script[pc] next
	stParked        // blocked inside script[pc]
	stWoken         // script[pc] was completed by a partner; result not yet observed
	stDone
)

type gor struct {
	pc      int
	st      int
	wres    string // pending result (stWoken)
	wval    int    // pending range value
	wmore   bool   // range: woken with a value (loop continues) rather than by close
	partial []int  // range values observed so far in script[pc]
	results []string
}

type chn struct {
	buf    []int
	closed bool
}

type state struct {
	ch   []chn
	g    []gor
	cbs  []string // per callback: "" pending, else its recorded outcome
	main bool     // main finished
}

func (s *state) clone() *state {
	n := &state{main: s.main}
	n.ch = make([]chn, len(s.ch))
	for i, c := range s.ch {
		n.ch[i] = chn{buf: append([]int(nil), c.buf...), closed: c.closed}
	}
	n.g = make([]gor, len(s.g))
	for i, g := range s.g {
		n.g[i] = g
		n.g[i].partial = append([]int(nil), g.partial...)
		n.g[i].results = append([]string(nil), g.results...)
	}
	n.cbs = append([]string(nil), s.cbs...)
	return n
}

func (s *state) key() string {
	var b strings.Builder
	for _, c := range s.ch {
		b.WriteByte('[')
		for _, v := range c.buf {
			b.WriteString(strconv.Itoa(v))
			b.WriteByte(',')
		}
		if c.closed {
			b.WriteByte('x')
		}
		b.WriteByte(']')
	}
	for _, g := range s.g {
		fmt.Fprintf(&b, "{%d.%d.%s.%d.%v.%v.%s}", g.pc, g.st, g.wres, g.wval, g.wmore, g.partial, strings.Join(g.results, ";"))
	}
	b.WriteString(strings.Join(s.cbs, "~"))
	if s.main {
		b.WriteByte('M')
	}
	return b.String()
}

// Outcome is the canonical, observable summary of a terminal state. The same function shape is used to
// summarise an observed history (see Observe in observe.go), so that set membership is string equality.
func outcomeString(ending string, gs []GOutcome, cbs []string) string {
	var b strings.Builder
	b.WriteString(ending)
	for i, g := range gs {
		fmt.Fprintf(&b, " | g%d:", i)
		b.WriteString(strings.Join(g.Results, ";"))
		switch {
		case g.Done:
			b.WriteString(" done")
		case g.InProgress:
			fmt.Fprintf(&b, " @%d%v", g.Pc, g.Partial)
		default:
			fmt.Fprintf(&b, " idle%d", g.Pc)
		}
	}
	for i, c := range cbs {
		fmt.Fprintf(&b, " | cb%d:%s", i, c)
	}
	return b.String()
}

type GOutcome struct {
	Results    []string
	Pc         int
	InProgress bool
	Partial    []int
	Done       bool
}

type Explorer struct {
	sc        *Scenario
	MaxStates int
	States    int
	Trans     int
	Outcomes  map[string]bool
	Overflow  bool
	// Flags describing what the scenario can reach (used for known-finding triggers and for evidence).
	Reach map[string]bool
	// deadlockCheck: false when the scenario registers callbacks (an exposed function disables the report).
	deadlockCheck bool
}

func NewExplorer(sc *Scenario, maxStates int) *Explorer {
	return &Explorer{sc: sc, MaxStates: maxStates, Outcomes: map[string]bool{}, Reach: map[string]bool{}, deadlockCheck: len(sc.Cbs) == 0}
}

func (e *Explorer) initial() *state {
	s := &state{}
	s.ch = make([]chn, len(e.sc.Caps))
	s.g = make([]gor, len(e.sc.Gs))
	s.g[0].st = stReady
	for _, h := range e.sc.Start {
		s.g[h].st = stReady
	}
	s.cbs = make([]string, len(e.sc.Cbs))
	return s
}

// Explore enumerates all reachable states; false if the state cap was hit.
func (e *Explorer) Explore() bool {
	seen := map[string]bool{}
	stack := []*state{e.initial()}
	seen[stack[0].key()] = true
	for len(stack) > 0 {
		s := stack[len(stack)-1]
		stack = stack[:len(stack)-1]
		e.States++
		if e.States > e.MaxStates {
			e.Overflow = true
			return false
		}
		succ, terminal := e.successors(s)
		if terminal != "" {
			e.Outcomes[e.outcome(s, terminal)] = true
			continue
		}
		if len(succ) == 0 {
			ending := "deadlock"
			if !e.deadlockCheck {
				ending = "idle"
			}
			e.Outcomes[e.outcome(s, ending)] = true
			continue
		}
		for _, n := range succ {
			e.Trans++
			k := n.key()
			if !seen[k] {
				seen[k] = true
				stack = append(stack, n)
			}
		}
	}
	return true
}

func (e *Explorer) outcome(s *state, ending string) string {
	gs := make([]GOutcome, len(s.g))
	for i, g := range s.g {
		gs[i] = GOutcome{Results: g.results, Pc: g.pc, InProgress: g.st == stParked || g.st == stWoken, Partial: g.partial, Done: g.st == stDone}
		if gs[i].Partial == nil {
			gs[i].Partial = []int{}
		}
	}
	return outcomeString(ending, gs, s.cbs)
}

func (e *Explorer) cap(c int) int { return e.sc.Caps[c] }

// parkedRecvCases lists (goroutine, select-case index or -1 for plain) parked in a receive on channel c.
type waiter struct{ g, idx int }

func (e *Explorer) parkedRecv(s *state, c int) []waiter {
	var w []waiter
	for gi := range s.g {
		if s.g[gi].st != stParked {
			continue
		}
		op := &e.sc.Gs[gi][s.g[gi].pc]
		switch op.K {
		case "recv", "recv2", "range":
			if op.C == c {
				w = append(w, waiter{gi, -1})
			}
		case "sel":
			for k := 0; k < 2; k++ {
				if op.R[k] == c {
					w = append(w, waiter{gi, k})
				}
			}
		}
	}
	return w
}

func (e *Explorer) parkedSend(s *state, c int) []waiter {
	var w []waiter
	for gi := range s.g {
		if s.g[gi].st != stParked {
			continue
		}
		op := &e.sc.Gs[gi][s.g[gi].pc]
		switch op.K {
		case "send":
			if op.C == c {
				w = append(w, waiter{gi, -1})
			}
		case "sel":
			for k := 0; k < 2; k++ {
				if op.S[k][0] == c {
					w = append(w, waiter{gi, 2 + k})
				}
			}
		}
	}
	return w
}

func sendValue(op *Op, idx int) int {
	if idx < 0 {
		return op.V
	}
	return op.S[idx-2][1]
}

// result strings (the observation side produces the same forms)
func ResRecv(v int) string           { return fmt.Sprintf("v=%d", v) }
func ResRecv2(v int, ok bool) string { return fmt.Sprintf("v=%d,ok=%v", v, ok) }
func ResSel(i, v int, ok bool) string {
	if i == 0 || i == 1 {
		return fmt.Sprintf("i=%d,v=%d,ok=%v", i, v, ok)
	}
	return fmt.Sprintf("i=%d", i)
}
func ResN(n int) string        { return fmt.Sprintf("n=%d", n) }
func ResPanic(m string) string { return "panic=" + m }

// wakeRecv completes a parked receiver w with (v, ok).
func (e *Explorer) wakeRecv(s *state, w waiter, v int, ok bool) {
	g := &s.g[w.g]
	op := &e.sc.Gs[w.g][g.pc]
	g.st = stWoken
	switch op.K {
	case "recv":
		g.wres = ResRecv(v)
	case "recv2":
		g.wres = ResRecv2(v, ok)
	case "range":
		g.wmore = ok
		g.wval = v
	case "sel":
		g.wres = ResSel(w.idx, v, ok)
	}
}

// wakeSend completes a parked sender (value taken), or makes it panic when closed.
func (e *Explorer) wakeSend(s *state, w waiter, closed bool) {
	g := &s.g[w.g]
	g.st = stWoken
	if closed {
		g.wres = ResPanic(PanicSendClosed)
		return
	}
	if w.idx < 0 {
		g.wres = ""
	} else {
		g.wres = ResSel(w.idx, 0, false)
	}
}

// complete finishes script[pc] of a running goroutine with the given result.
func (e *Explorer) complete(s *state, gi int, res string) {
	g := &s.g[gi]
	g.results = append(g.results, res)
	g.partial = nil
	g.pc++
	g.st = stReady
	g.wres = ""
}

// doSend performs a send by actor gi (gi<0: a callback); returns successor states, or nil with park=true.
func (e *Explorer) doSend(s *state, c, v int, fin func(n *state, res string)) (succ []*state, park bool) {
	if c < 0 {
		return nil, true
	}
	if s.ch[c].closed {
		n := s.clone()
		fin(n, ResPanic(PanicSendClosed))
		return []*state{n}, false
	}
	if ws := e.parkedRecv(s, c); len(ws) > 0 {
		for _, w := range ws {
			n := s.clone()
			e.wakeRecv(n, w, v, true)
			fin(n, "")
			succ = append(succ, n)
		}
		return succ, false
	}
	if len(s.ch[c].buf) < e.cap(c) {
		n := s.clone()
		n.ch[c].buf = append(n.ch[c].buf, v)
		fin(n, "")
		return []*state{n}, false
	}
	return nil, true
}

// doRecv performs a receive; fin gets (value, ok).
func (e *Explorer) doRecv(s *state, c int, fin func(n *state, v int, ok bool)) (succ []*state, park bool) {
	if c < 0 {
		return nil, true
	}
	if len(s.ch[c].buf) > 0 {
		v := s.ch[c].buf[0]
		ws := e.parkedSend(s, c)
		if len(ws) == 0 {
			n := s.clone()
			n.ch[c].buf = n.ch[c].buf[1:]
			fin(n, v, true)
			return []*state{n}, false
		}
		for _, w := range ws {
			n := s.clone()
			n.ch[c].buf = append(n.ch[c].buf[1:], sendValue(&e.sc.Gs[w.g][s.g[w.g].pc], w.idx))
			e.wakeSend(n, w, false)
			fin(n, v, true)
			succ = append(succ, n)
		}
		return succ, false
	}
	if ws := e.parkedSend(s, c); len(ws) > 0 {
		for _, w := range ws {
			n := s.clone()
			v := sendValue(&e.sc.Gs[w.g][s.g[w.g].pc], w.idx)
			e.wakeSend(n, w, false)
			fin(n, v, true)
			succ = append(succ, n)
		}
		return succ, false
	}
	if s.ch[c].closed {
		n := s.clone()
		fin(n, 0, false)
		return []*state{n}, false
	}
	return nil, true
}

// doClose: fin gets the result string.
func (e *Explorer) doClose(s *state, c int, fin func(n *state, res string)) []*state {
	if c < 0 {
		n := s.clone()
		fin(n, ResPanic(PanicCloseNil))
		return []*state{n}
	}
	if s.ch[c].closed {
		n := s.clone()
		fin(n, ResPanic(PanicCloseClosed))
		return []*state{n}
	}
	// Every goroutine parked on c is woken. A select parked on c through several cases may be completed
	// through any one of them: enumerate the combinations.
	rw := e.parkedRecv(s, c)
	sw := e.parkedSend(s, c)
	if len(sw) > 0 {
		e.Reach["close_with_parked_sender"] = true
		for _, w := range sw {
			if w.idx >= 0 {
				e.Reach["close_with_parked_select_send"] = true
			}
		}
	}
	if len(rw) > 0 {
		e.Reach["close_with_parked_receiver"] = true
	}
	byG := map[int][]struct {
		w    waiter
		send bool
	}{}
	var order []int
	for _, w := range rw {
		if _, ok := byG[w.g]; !ok {
			order = append(order, w.g)
		}
		byG[w.g] = append(byG[w.g], struct {
			w    waiter
			send bool
		}{w, false})
	}
	for _, w := range sw {
		if _, ok := byG[w.g]; !ok {
			order = append(order, w.g)
		}
		byG[w.g] = append(byG[w.g], struct {
			w    waiter
			send bool
		}{w, true})
	}
	sort.Ints(order)
	base := s.clone()
	base.ch[c].closed = true
	states := []*state{base}
	for _, gi := range order {
		var next []*state
		for _, st := range states {
			for _, alt := range byG[gi] {
				n := st
				if len(byG[gi]) > 1 {
					n = st.clone()
				}
				if alt.send {
					e.wakeSend(n, alt.w, true)
				} else {
					e.wakeRecv(n, alt.w, 0, false)
				}
				next = append(next, n)
			}
		}
		states = next
	}
	for _, n := range states {
		fin(n, "")
	}
	return states
}

type selCase struct {
	idx  int
	c    int
	send bool
	v    int
}

func selCases(op *Op) []selCase {
	return []selCase{{0, op.R[0], false, 0}, {1, op.R[1], false, 0}, {2, op.S[0][0], true, op.S[0][1]}, {3, op.S[1][0], true, op.S[1][1]}}
}

// doOp returns the successors of executing op as actor (a goroutine when gi>=0, otherwise a callback).
// fin(n,res) must finish the operation in successor n. park reports that the operation cannot proceed.
func (e *Explorer) doOp(s *state, op *Op, fin func(n *state, res string)) (succ []*state, park bool) {
	switch op.K {
	case "send":
		return e.doSend(s, op.C, op.V, fin)
	case "recv":
		return e.doRecv(s, op.C, func(n *state, v int, ok bool) { fin(n, ResRecv(v)) })
	case "recv2":
		return e.doRecv(s, op.C, func(n *state, v int, ok bool) { fin(n, ResRecv2(v, ok)) })
	case "close":
		return e.doClose(s, op.C, fin), false
	case "len":
		n := s.clone()
		l := 0
		if op.C >= 0 {
			l = len(s.ch[op.C].buf)
		}
		fin(n, ResN(l))
		return []*state{n}, false
	case "cap":
		n := s.clone()
		l := 0
		if op.C >= 0 {
			l = e.cap(op.C)
		}
		fin(n, ResN(l))
		return []*state{n}, false
	case "gosched", "sleep", "yield":
		n := s.clone()
		fin(n, "")
		return []*state{n}, false
	case "ident":
		n := s.clone()
		fin(n, "same=true")
		return []*state{n}, false
	case "ngo":
		n := s.clone()
		k := 0
		for _, g := range s.g {
			if g.st == stReady || g.st == stParked || g.st == stWoken {
				k++
			}
		}
		fin(n, ResN(k))
		return []*state{n}, false
	case "sel":
		any := false
		for _, sc := range selCases(op) {
			if sc.c < 0 {
				continue
			}
			idx := sc.idx
			var ss []*state
			var p bool
			if sc.send {
				ss, p = e.doSend(s, sc.c, sc.v, func(n *state, res string) {
					if res == "" {
						res = ResSel(idx, 0, false)
					}
					fin(n, res)
				})
			} else {
				ss, p = e.doRecv(s, sc.c, func(n *state, v int, ok bool) { fin(n, ResSel(idx, v, ok)) })
			}
			if !p {
				any = true
				succ = append(succ, ss...)
			}
		}
		if any {
			return succ, false
		}
		if op.D {
			n := s.clone()
			fin(n, ResSel(-1, 0, false))
			return []*state{n}, false
		}
		return nil, true
	}
	panic("chanmodel: unknown op " + op.K)
}

// successors returns the next states, or a non-empty terminal ending.
func (e *Explorer) successors(s *state) (succ []*state, terminal string) {
	if s.main {
		return nil, "clean"
	}
	for gi := range s.g {
		g := &s.g[gi]
		switch g.st {
		case stWoken:
			op := &e.sc.Gs[gi][g.pc]
			n := s.clone()
			ng := &n.g[gi]
			if op.K == "range" {
				if ng.wmore {
					ng.partial = append(ng.partial, ng.wval)
					ng.st = stReady
					ng.wmore = false
					ng.wval = 0
				} else {
					e.complete(n, gi, ResN(len(ng.partial)))
				}
			} else {
				e.complete(n, gi, ng.wres)
			}
			succ = append(succ, n)
		case stReady:
			ops := e.sc.Gs[gi]
			if g.pc >= len(ops) {
				if gi == 0 {
					// main waits for every other goroutine and every callback, then exits
					all := true
					for hi := 1; hi < len(s.g); hi++ {
						if s.g[hi].st != stDone {
							all = false
						}
					}
					for _, c := range s.cbs {
						if c == "" {
							all = false
						}
					}
					if all {
						n := s.clone()
						n.g[0].st = stDone
						n.main = true
						succ = append(succ, n)
					}
				} else {
					n := s.clone()
					n.g[gi].st = stDone
					succ = append(succ, n)
				}
				continue
			}
			op := &ops[g.pc]
			switch op.K {
			case "goexit":
				e.Reach["goexit"] = true
				n := s.clone()
				n.g[gi].st = stDone
				succ = append(succ, n)
			case "panic":
				e.Reach["uncaught_panic"] = true
				// the program ends at once; observable: the goroutine had invoked the operation
				n := s.clone()
				n.g[gi].st = stParked
				e.Outcomes[e.outcome(n, "uncaught:boom")] = true
				// not a successor: terminal alternative reached from s. Other goroutines may also step
				// first, which the remaining successors cover.
			case "spawn":
				n := s.clone()
				if n.g[op.G].st == stNew {
					n.g[op.G].st = stReady
				}
				e.complete(n, gi, "")
				succ = append(succ, n)
			case "gosched", "sleep", "yield":
				// the goroutine may be suspended inside the operation (in progress), then completes
				n := s.clone()
				n.g[gi].st = stWoken
				n.g[gi].wres = ""
				succ = append(succ, n)
			case "range":
				gi := gi
				ss, park := e.doRecv(s, op.C, func(n *state, v int, ok bool) {
					ng := &n.g[gi]
					if ok {
						ng.partial = append(ng.partial, v)
					} else {
						e.complete(n, gi, ResN(len(ng.partial)))
					}
				})
				if park {
					n := s.clone()
					n.g[gi].st = stParked
					succ = append(succ, n)
				} else {
					succ = append(succ, ss...)
				}
			default:
				gi := gi
				ss, park := e.doOp(s, op, func(n *state, res string) { e.complete(n, gi, res) })
				if park {
					if op.K == "sel" {
						e.Reach["select_parked"] = true
					}
					n := s.clone()
					n.g[gi].st = stParked
					succ = append(succ, n)
				} else {
					succ = append(succ, ss...)
				}
			}
		}
	}
	// pending callbacks may be delivered at any instant
	for ci := range s.cbs {
		if s.cbs[ci] != "" {
			continue
		}
		cb := &e.sc.Cbs[ci]
		ci := ci
		switch cb.Kind {
		case "echo", "echoobj":
			n := s.clone()
			n.cbs[ci] = "ret:" + cb.Kind
			succ = append(succ, n)
		case "spawn":
			n := s.clone()
			if n.g[cb.G].st == stNew {
				n.g[cb.G].st = stReady
			}
			n.cbs[ci] = "ret:"
			succ = append(succ, n)
		case "chanop":
			ss, park := e.doOp(s, cb.Op, func(n *state, res string) {
				if strings.HasPrefix(res, "panic=") && !cb.Recover {
					n.cbs[ci] = "thrown:" + strings.TrimPrefix(res, "panic=")
				} else if cb.Deferred {
					n.cbs[ci] = "thrown:" + PanicCbFirst
				} else {
					n.cbs[ci] = "ret:" + res
				}
			})
			if cb.Deferred {
				e.Reach["callback_op_in_deferred_call_while_panicking"] = true
			}
			if park {
				e.Reach["callback_would_block"] = true
				n := s.clone()
				if cb.Recover {
					n.cbs[ci] = "ret:" + ResPanic(PanicCbBlock)
				} else {
					n.cbs[ci] = "thrown:" + PanicCbBlock
				}
				succ = append(succ, n)
			} else {
				succ = append(succ, ss...)
			}
		}
	}
	return succ, ""
}

// SortedOutcomes is for reports.
func (e *Explorer) SortedOutcomes() []string {
	var l []string
	for k := range e.Outcomes {
		l = append(l, k)
	}
	sort.Strings(l)
	return l
}
