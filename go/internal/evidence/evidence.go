// Package evidence writes /verif/evidence/<id>.json (EVIDENCE.schema.json) and the replay files.
package evidence

import (
	"crypto/sha256"
	"encoding/json"
	"fmt"
	"os"
	"path/filepath"
	"sort"
	"sync"
)

type Evidence struct {
	PropertyID  string         `json:"property_id"`
	Tier        string         `json:"tier"`
	Seed        int64          `json:"seed"`
	Level       string         `json:"level"`
	Coverage    map[string]any `json:"coverage"`
	Assumptions []string       `json:"assumptions"`
	WallS       float64        `json:"wall_s"`
	Violations  int            `json:"violations"`
}

func (e *Evidence) Write(verifDir string) error {
	dir := filepath.Join(verifDir, "evidence")
	if d := os.Getenv("VERIF_EVIDENCE_DIR"); d != "" {
		dir = d // sensitivity runs against patched scratch copies must not overwrite the real evidence
	}
	if err := os.MkdirAll(dir, 0o755); err != nil {
		return err
	}
	b, err := json.MarshalIndent(e, "", " ")
	if err != nil {
		return err
	}
	return os.WriteFile(filepath.Join(dir, e.PropertyID+".json"), append(b, '\n'), 0o644)
}

// Counter is a concurrency-safe bag of named counters (fault kinds fired, probes hit, ...).
type Counter struct {
	mu sync.Mutex
	m  map[string]int
}

func NewCounter() *Counter { return &Counter{m: map[string]int{}} }
func (c *Counter) Add(k string, d int) {
	c.mu.Lock()
	c.m[k] += d
	c.mu.Unlock()
}
func (c *Counter) AddAll(m map[string]int) {
	c.mu.Lock()
	for k, v := range m {
		c.m[k] += v
	}
	c.mu.Unlock()
}
func (c *Counter) Get(k string) int {
	c.mu.Lock()
	defer c.mu.Unlock()
	return c.m[k]
}
func (c *Counter) Map() map[string]int {
	c.mu.Lock()
	defer c.mu.Unlock()
	out := map[string]int{}
	for k, v := range c.m {
		out[k] = v
	}
	return out
}

// Set counts distinct strings.
type Set struct {
	mu sync.Mutex
	m  map[string]struct{}
}

func NewSet() *Set { return &Set{m: map[string]struct{}{}} }
func (s *Set) Add(k string) {
	s.mu.Lock()
	s.m[k] = struct{}{}
	s.mu.Unlock()
}
func (s *Set) Len() int {
	s.mu.Lock()
	defer s.mu.Unlock()
	return len(s.m)
}
func (s *Set) Sorted() []string {
	s.mu.Lock()
	defer s.mu.Unlock()
	var l []string
	for k := range s.m {
		l = append(l, k)
	}
	sort.Strings(l)
	return l
}

// Replay is the on-disk form of a (minimised) failing execution.
type Replay struct {
	Property string          `json:"property"`
	Class    string          `json:"class"`
	Message  string          `json:"message"`
	Kind     string          `json:"kind"` // which engine replays it
	Workload json.RawMessage `json:"workload"`
	Sim      map[string]any  `json:"sim,omitempty"`
	Tape     []int           `json:"tape,omitempty"`
	Plan     json.RawMessage `json:"plan,omitempty"`
	Digest   string          `json:"digest"`
	Seed     int64           `json:"seed"`
	FoundAt  string          `json:"found_at"`
	Known    string          `json:"known_finding,omitempty"`
}

func Digest(parts ...string) string {
	h := sha256.New()
	for _, p := range parts {
		h.Write([]byte(p))
		h.Write([]byte{0})
	}
	return fmt.Sprintf("%x", h.Sum(nil)[:8])
}

// WriteReplay stores the replay under /verif/replays and returns its path.
func WriteReplay(verifDir string, r *Replay) (string, error) {
	dir := filepath.Join(verifDir, "replays")
	if d := os.Getenv("VERIF_REPLAY_DIR"); d != "" {
		dir = d
	}
	if err := os.MkdirAll(dir, 0o755); err != nil {
		return "", err
	}
	b, err := json.MarshalIndent(r, "", " ")
	if err != nil {
		return "", err
	}
	name := fmt.Sprintf("%s-%s-%s.json", r.Property, r.Class, Digest(string(b)))
	p := filepath.Join(dir, name)
	return p, os.WriteFile(p, append(b, '\n'), 0o644)
}

func ReadReplay(path string) (*Replay, error) {
	b, err := os.ReadFile(path)
	if err != nil {
		return nil, err
	}
	var r Replay
	if err := json.Unmarshal(b, &r); err != nil {
		return nil, err
	}
	return &r, nil
}
