// Package known reads /verif/known_findings.json: genuine defects of the tree that are recorded rather
// than repaired ("known"), and repaired ones ("fixed", which suppress nothing). The file is never written
// at run time. A known entry names a trigger predicate implemented here; a failure is attributed to the
// finding only if the failing workload/history satisfies that narrow predicate.
package known

import (
	"encoding/json"
	"fmt"
	"os"
	"path/filepath"
	"regexp"
	"strings"

	"verif/internal/chanmodel"
	"verif/internal/syncmodel"
)

type Finding struct {
	ID         string   `json:"id"`
	Properties []string `json:"properties"`
	Status     string   `json:"status"` // known | fixed
	Commit     string   `json:"commit,omitempty"`
	Trigger    string   `json:"trigger,omitempty"`
	What       string   `json:"what"`
	Reproducer string   `json:"reproducer,omitempty"`
}

type File struct {
	Findings []Finding `json:"findings"`
}

func Load(verifDir string) (*File, error) {
	b, err := os.ReadFile(filepath.Join(verifDir, "known_findings.json"))
	if os.IsNotExist(err) {
		return &File{}, nil
	}
	if err != nil {
		return nil, err
	}
	var f File
	if err := json.Unmarshal(b, &f); err != nil {
		return nil, fmt.Errorf("known_findings.json: %v", err)
	}
	return &f, nil
}

func (f *File) active(property string) []Finding {
	var l []Finding
	for _, k := range f.Findings {
		if k.Status != "known" {
			continue
		}
		for _, p := range k.Properties {
			if p == property {
				l = append(l, k)
			}
		}
	}
	return l
}

func (f *File) Describe(id string) string {
	for _, k := range f.Findings {
		if k.ID == id {
			return k.ID + ": " + k.What
		}
	}
	return id
}

// Active reports whether a finding with this trigger is listed as known for the property.
func (f *File) Active(property, trigger string) (string, bool) {
	for _, k := range f.active(property) {
		if k.Trigger == trigger {
			return k.ID, true
		}
	}
	return "", false
}

// MatchChan attributes a chanscript failure to a listed finding, or returns "".
func (f *File) MatchChan(property string, sc *chanmodel.Scenario, class, message string) string {
	for _, k := range f.active(property) {
		if chanTrigger(k.Trigger, sc, class, message) {
			return k.ID
		}
	}
	return ""
}

func chanTrigger(trigger string, sc *chanmodel.Scenario, class, message string) bool {
	feat := sc.Features()
	switch trigger {
	case "goexit-below-deferred-frame":
		// the failing scenario performs runtime.Goexit below a frame with deferred calls and the complaint is
		// that execution continued after it
		return feat["goexit_deep"] && strings.Contains(message, "returned after runtime.Goexit")
	}
	return false
}

// MatchSync attributes a syncscript failure to a listed finding, or returns "".
func (f *File) MatchSync(property string, sc *syncmodel.Scenario, class, message string) string {
	for _, k := range f.active(property) {
		if syncTrigger(k.Trigger, sc, class, message) {
			return k.ID
		}
	}
	return ""
}

func syncTrigger(trigger string, sc *syncmodel.Scenario, class, message string) bool {
	return false
}

// MatchProg attributes a generated-program failure to a listed finding, or returns "". src is the (minimised)
// main.go; clean says whether the program was generated in clean mode (where no known shape is generated, so
// nothing can be attributed).
func (f *File) MatchProg(property, src string, clean bool, class, message string) string {
	if clean {
		return ""
	}
	for _, k := range f.active(property) {
		if progTrigger(k.Trigger, src, class, message) {
			return k.ID
		}
	}
	return ""
}

var (
	reAtomIDs  = regexp.MustCompile(`"(?:\d+ )?-(\d+)"`)
	reStatic   = regexp.MustCompile(`y\.Y\(|\bt\.PM\(|\btv\.VM\(|\be\.PM\(|\be\.VM\(|y\.G\[|\bbx\.Get\(|\bbv\.Val\(|\(\*y\.T\)\.PM\(|y\.T\.VM\(|y\.Deep\(|\bly\(|y\.B\(|y\.S\(`)
	reBlocking = regexp.MustCompile(`\bi\.PM\(|\bi\.VM\(|\bfv\(|\bmv\(|y\.FV\(|y\.Apply\(|\blk\(|\bf\d+\(|func\(\) int`)
)

// linesWithAtoms returns the lines of src that mention one of the two atom ids named first in the message (the
// other one may sit in a function called from that line). An atom is written y.Y(id), x.M(id), f(a, id), or - for
// the bool and string atoms - y.B(id, cond) / y.S(id, s).
func linesWithAtoms(src, message string) []string {
	m := reAtomIDs.FindAllStringSubmatch(message, 2)
	if len(m) < 2 {
		return nil
	}
	has := func(line, id string) bool {
		return regexp.MustCompile(`[( ]`+id+`\)|y\.[BS]\(`+id+`,`).MatchString(line)
	}
	var out []string
	for _, line := range strings.Split(src, "\n") {
		if has(line, m[0][1]) || has(line, m[1][1]) {
			out = append(out, line)
		}
	}
	return out
}

func progTrigger(trigger, src, class, message string) bool {
	switch trigger {
	case "static-call-before-blocking-call":
		// F6a: D and R0 disagree on the order of two atoms of ONE statement in which a statically resolved,
		// non-blocking call lexically precedes a call that is always compiled as blocking (interface method,
		// function value, method value, bodyless function, call of a blocking function).
		if class != "direct-vs-resumable" {
			return false
		}
		for _, line := range linesWithAtoms(src, message) {
			st := reStatic.FindStringIndex(line)
			for _, bl := range reBlocking.FindAllStringIndex(line, -1) {
				if st != nil && st[0] < bl[0] {
					return true
				}
			}
		}
	case "keyed-literal-out-of-order":
		// F6b: an array literal whose keyed elements are not in index order
		if class != "direct-vs-resumable" {
			return false
		}
		for _, line := range linesWithAtoms(src, message) {
			if strings.Contains(line, "[3]int{2:") {
				return true
			}
		}
	}
	return false
}

// MatchC17 attributes a reproducibility failure to a listed finding, or returns "".
func (f *File) MatchC17(class, msg, point string) string {
	for _, k := range f.active("C17") {
		switch k.Trigger {
		case "session-history-shared-generic-package":
			// F3: a main package built after ANOTHER main package of the same module that shares a GENERIC
			// package with it, instantiated differently (corpus programs "progNNN" with mains cmd/a, cmd/b; the
			// "plainNNN" programs share a non-generic library and are never attributed)
			if (class == "output-depends-on-history" || class == "build-fails-history" || class == "map-depends-on-history") && strings.HasPrefix(point, "prog") && strings.Contains(point, ":cmd/") && strings.Contains(msg, "history [cmd/") {
				return k.ID
			}
		}
	}
	return ""
}
