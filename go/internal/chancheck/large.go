package chancheck

// Large configurations (C03 workload A'): 5-8 goroutines x up to 12 operations, where exhaustive exploration of
// the reference model is no longer feasible. The recorded history is judged instead by
//
//  1. history invariants (no value received twice or out of thin air, panics only where Go panics, nil channels
//     never proceed, unbuffered sends rendezvous with an overlapping receive),
//  2. linearizability of every channel's history against a sequential bounded-queue-with-close model (porcupine;
//     operations are stamped with the simulator's global event sequence numbers; pending operations are dropped;
//     a timeout is inconclusive and never reported),
//  3. bounded liveness: when the run ends (deadlock report or idle), every goroutine that is still parked must be
//     parked on an operation that is disabled in the final channel state reconstructed from the history - a parked
//     goroutine whose operation is enabled is a lost wake-up; and the deadlock report must appear exactly when
//     main did not finish.

import (
	"encoding/json"
	"fmt"
	"sort"
	"strings"
	"time"

	"github.com/anishathalye/porcupine"

	"verif/internal/chanmodel"
	"verif/internal/known"
	"verif/internal/rng"
	"verif/internal/scripteng"
	"verif/internal/simpool"
)

type largeCase struct {
	sc *chanmodel.Scenario
}

func (c *largeCase) JSON() json.RawMessage             { b, _ := json.Marshal(c.sc); return b }
func (c *largeCase) Callbacks() []simpool.CallbackSpec { return nil }
func (c *largeCase) SimCfg() map[string]any            { return nil }
func (c *largeCase) ModelSize() (int, int)             { return 0, 0 }
func (c *largeCase) Reach() []string {
	l := []string{"large"}
	for k := range c.sc.Features() {
		l = append(l, k)
	}
	sort.Strings(l)
	return l
}
func (c *largeCase) Sample(res *simpool.Result) any {
	return map[string]any{"large_scenario": c.sc, "history_records": len(res.Hist), "end": res.End}
}
func (c *largeCase) KnownFinding(kf *known.File, property string, v *scripteng.Verdict) string {
	return ""
}
func (c *largeCase) Candidates() []scripteng.Case {
	var out []scripteng.Case
	for _, sc := range candidates(c.sc) {
		sc.Normalise()
		if sc.Validate() == nil {
			out = append(out, &largeCase{sc})
		}
	}
	return out
}

type lop struct {
	g, pc    int
	op       *chanmodel.Op
	inv, ret int // global sequence numbers; ret < 0: never returned
	res      struct {
		V     *int    `json:"v"`
		Ok    *bool   `json:"ok"`
		I     *int    `json:"i"`
		N     *int    `json:"n"`
		Panic *string `json:"panic"`
	}
	rangeVals []int
	rangeSeqs []int
}

// channel operation as seen by the per-channel sequential model
type chIn struct {
	Kind string // send | recv | close | len | tryrecv-empty | trysend-full
	V    int
}
type chOut struct {
	V     int
	Ok    bool
	Panic bool
	N     int
}

type chState struct {
	buf    string // comma separated values
	closed bool
}

func queueModel(capacity int) porcupine.Model {
	push := func(s chState, v int) chState {
		if s.buf == "" {
			s.buf = fmt.Sprint(v)
		} else {
			s.buf += "," + fmt.Sprint(v)
		}
		return s
	}
	length := func(s chState) int {
		if s.buf == "" {
			return 0
		}
		return strings.Count(s.buf, ",") + 1
	}
	return porcupine.Model{
		Init: func() interface{} { return chState{} },
		Step: func(state, input, output interface{}) (bool, interface{}) {
			s := state.(chState)
			in := input.(chIn)
			out := output.(chOut)
			switch in.Kind {
			case "send":
				if s.closed {
					return out.Panic, s
				}
				if out.Panic {
					return false, s
				}
				// an unbuffered channel is modelled as an unbounded queue here; the rendezvous is an invariant
				if capacity > 0 && length(s) >= capacity {
					return false, s
				}
				return true, push(s, in.V)
			case "recv":
				if length(s) > 0 {
					head := s.buf
					rest := ""
					if i := strings.IndexByte(s.buf, ','); i >= 0 {
						head, rest = s.buf[:i], s.buf[i+1:]
					}
					if !out.Ok || fmt.Sprint(out.V) != head {
						return false, s
					}
					s.buf = rest
					return true, s
				}
				if s.closed {
					return !out.Ok && out.V == 0, s
				}
				return false, s
			case "close":
				if s.closed {
					return out.Panic, s
				}
				if out.Panic {
					return false, s
				}
				s.closed = true
				return true, s
			case "len":
				if capacity == 0 {
					return out.N == 0, s
				}
				return out.N == length(s), s
			case "tryrecv-empty":
				return length(s) == 0 && !s.closed, s
			case "trysend-full":
				return capacity > 0 && length(s) >= capacity && !s.closed, s
			}
			return false, s
		},
		Equal: func(a, b interface{}) bool { return a.(chState) == b.(chState) },
	}
}

func (c *largeCase) Judge(res *simpool.Result) *scripteng.Verdict {
	sc := c.sc
	bad := func(class, f string, a ...any) *scripteng.Verdict {
		m := fmt.Sprintf(f, a...)
		return &scripteng.Verdict{Class: class, Message: m, Digest: class + m}
	}
	if strings.HasPrefix(res.End, "simerror:") {
		return &scripteng.Verdict{Class: "INFRA", Message: res.End}
	}
	// ---- parse the history
	var ops []*lop
	cur := map[int]*lop{}
	done := map[int]bool{}
	exit := false
	for _, h := range res.Hist {
		var g, pc int
		var ph string
		if len(h.A) < 3 || json.Unmarshal(h.A[0], &g) != nil || json.Unmarshal(h.A[1], &pc) != nil || json.Unmarshal(h.A[2], &ph) != nil {
			return bad("malformed-history", "unparsable record")
		}
		switch ph {
		case "exit":
			exit = true
		case "done":
			done[g] = true
		case "inv":
			if g >= len(sc.Gs) || pc >= len(sc.Gs[g]) || cur[g] != nil {
				return bad("malformed-history", "g%d: inv of op %d out of order", g, pc)
			}
			o := &lop{g: g, pc: pc, op: &sc.Gs[g][pc], inv: h.N, ret: -1}
			cur[g] = o
			ops = append(ops, o)
		case "rv":
			if cur[g] == nil {
				return bad("malformed-history", "g%d: range value outside an operation", g)
			}
			var v int
			json.Unmarshal(h.A[3], &v)
			cur[g].rangeVals = append(cur[g].rangeVals, v)
			cur[g].rangeSeqs = append(cur[g].rangeSeqs, h.N)
		case "ret":
			o := cur[g]
			if o == nil || o.pc != pc {
				return bad("malformed-history", "g%d: ret of op %d without inv", g, pc)
			}
			if len(h.A) > 3 {
				json.Unmarshal(h.A[3], &o.res)
			}
			o.ret = h.N
			cur[g] = nil
		}
	}
	// ---- ending
	deadlockReported := res.End == "exit:2" && hasLine(res.Out, "ERR fatal error: all goroutines are asleep - deadlock!")
	switch {
	case res.End == "drained" && exit:
	case deadlockReported && !exit:
	default:
		return bad("abnormal-end", "run ended with %q (main finished: %v)", res.End, exit)
	}
	// ---- per-channel histories and invariants
	type sendRec struct{ o *lop }
	sent := map[int]*lop{}     // value -> the operation that sends it
	received := map[int]*lop{} // value -> the operation that received it
	perChan := map[int][]porcupine.Operation{}
	addOp := func(ch int, client int, in chIn, out chOut, call, ret int) {
		perChan[ch] = append(perChan[ch], porcupine.Operation{ClientId: client, Input: in, Output: out, Call: int64(call), Return: int64(ret)})
	}
	closedAt := map[int]int{} // channel -> seq of the successful close
	nilOps := 0
	for _, o := range ops {
		op := o.op
		isPanic := o.res.Panic != nil
		retd := o.ret >= 0
		recvObs := func(ch int, v int, ok bool, call, ret int) *scripteng.Verdict {
			if ok {
				if prev, dup := received[v]; dup {
					return bad("value-duplicated", "value %d was received twice (g%d op %d and g%d op %d)", v, prev.g, prev.pc, o.g, o.pc)
				}
				received[v] = o
			}
			addOp(ch, o.g, chIn{Kind: "recv"}, chOut{V: v, Ok: ok}, call, ret)
			return nil
		}
		switch op.K {
		case "send":
			if op.C < 0 {
				nilOps++
				if retd {
					return bad("nil-channel-proceeded", "g%d op %d: send on a nil channel returned", o.g, o.pc)
				}
				continue
			}
			sent[op.V] = o
			if retd {
				if isPanic && *o.res.Panic != chanmodel.PanicSendClosed {
					return bad("wrong-panic", "g%d op %d: send panicked with %q", o.g, o.pc, *o.res.Panic)
				}
				addOp(op.C, o.g, chIn{Kind: "send", V: op.V}, chOut{Panic: isPanic}, o.inv, o.ret)
			}
		case "recv", "recv2":
			if op.C < 0 {
				nilOps++
				if retd {
					return bad("nil-channel-proceeded", "g%d op %d: receive from a nil channel returned", o.g, o.pc)
				}
				continue
			}
			if retd {
				if isPanic || o.res.V == nil {
					return bad("wrong-panic", "g%d op %d: receive panicked or lacks a value", o.g, o.pc)
				}
				ok := true
				if op.K == "recv2" {
					if o.res.Ok == nil {
						return bad("malformed-history", "recv2 without ok")
					}
					ok = *o.res.Ok
				} else if *o.res.V == 0 {
					ok = false // plain receive of the zero value: only possible from a closed channel (sent values are > 0)
				}
				if v := recvObs(op.C, *o.res.V, ok, o.inv, o.ret); v != nil {
					return v
				}
			}
		case "range":
			if op.C < 0 {
				nilOps++
				if retd {
					return bad("nil-channel-proceeded", "g%d op %d: range over a nil channel ended", o.g, o.pc)
				}
				continue
			}
			prev := o.inv
			for i, v := range o.rangeVals {
				if vd := recvObs(op.C, v, true, prev, o.rangeSeqs[i]); vd != nil {
					return vd
				}
				prev = o.rangeSeqs[i]
			}
			if retd {
				addOp(op.C, o.g, chIn{Kind: "recv"}, chOut{V: 0, Ok: false}, prev, o.ret)
			}
		case "close":
			if !retd {
				return bad("close-blocked", "g%d op %d: close never returned", o.g, o.pc)
			}
			if op.C < 0 {
				if !isPanic || *o.res.Panic != chanmodel.PanicCloseNil {
					return bad("wrong-panic", "g%d op %d: close of a nil channel must panic", o.g, o.pc)
				}
				continue
			}
			if isPanic && *o.res.Panic != chanmodel.PanicCloseClosed {
				return bad("wrong-panic", "g%d op %d: close panicked with %q", o.g, o.pc, *o.res.Panic)
			}
			if !isPanic {
				closedAt[op.C] = o.ret
			}
			addOp(op.C, o.g, chIn{Kind: "close"}, chOut{Panic: isPanic}, o.inv, o.ret)
		case "len":
			if retd && op.C >= 0 && o.res.N != nil {
				addOp(op.C, o.g, chIn{Kind: "len"}, chOut{N: *o.res.N}, o.inv, o.ret)
			}
		case "sel":
			if !retd {
				continue
			}
			if isPanic {
				if *o.res.Panic != chanmodel.PanicSendClosed {
					return bad("wrong-panic", "g%d op %d: select panicked with %q", o.g, o.pc, *o.res.Panic)
				}
				// some send case hit a closed channel; which one is not recorded: not added to a channel history
				continue
			}
			if o.res.I == nil {
				return bad("malformed-history", "select result without index")
			}
			i := *o.res.I
			switch {
			case i == 0 || i == 1:
				ch := op.R[i]
				if ch < 0 || o.res.V == nil || o.res.Ok == nil {
					return bad("nil-channel-proceeded", "g%d op %d: select chose a receive case on a nil channel or lacks a value", o.g, o.pc)
				}
				if v := recvObs(ch, *o.res.V, *o.res.Ok, o.inv, o.ret); v != nil {
					return v
				}
			case i == 2 || i == 3:
				ch := op.S[i-2][0]
				if ch < 0 {
					return bad("nil-channel-proceeded", "g%d op %d: select chose a send case on a nil channel", o.g, o.pc)
				}
				sent[op.S[i-2][1]] = o
				addOp(ch, o.g, chIn{Kind: "send", V: op.S[i-2][1]}, chOut{}, o.inv, o.ret)
			case i == -1:
				if !op.D {
					return bad("malformed-history", "default chosen by a select without default")
				}
				for k := 0; k < 2; k++ {
					if ch := op.R[k]; ch >= 0 {
						addOp(ch, o.g, chIn{Kind: "tryrecv-empty"}, chOut{}, o.inv, o.ret)
					}
					if ch := op.S[k][0]; ch >= 0 && sc.Caps[ch] > 0 {
						addOp(ch, o.g, chIn{Kind: "trysend-full"}, chOut{}, o.inv, o.ret)
					}
				}
			}
		}
	}
	// received values must have been sent, by a send invoked before the receive returned
	for v, r := range received {
		s, ok := sent[v]
		if !ok {
			// the value may belong to a select send case that was never chosen/recorded
			found := false
			for _, o := range ops {
				if o.op.K == "sel" && (o.op.S[0][1] == v || o.op.S[1][1] == v) {
					found, s = true, o
				}
			}
			if !found {
				return bad("value-out-of-thin-air", "value %d was received (g%d op %d) but never sent", v, r.g, r.pc)
			}
		}
		if r.ret >= 0 && s.inv > r.ret {
			return bad("value-before-send", "value %d was received (g%d op %d) before its send was invoked", v, r.g, r.pc)
		}
	}
	// unbuffered rendezvous: a completed send is matched by a receive whose interval overlaps it
	for v, s := range sent {
		ch := s.op.C
		if s.op.K == "sel" {
			if s.op.S[0][1] == v {
				ch = s.op.S[0][0]
			} else {
				ch = s.op.S[1][0]
			}
		}
		if ch < 0 || sc.Caps[ch] != 0 || s.ret < 0 || s.res.Panic != nil {
			continue
		}
		if s.op.K == "sel" && (s.res.I == nil || (*s.res.I != 2 && *s.res.I != 3) || s.op.S[*s.res.I-2][1] != v) {
			continue // that send case was not the one chosen
		}
		r, ok := received[v]
		if !ok {
			return bad("value-lost", "the send of %d on an unbuffered channel completed (g%d op %d) but nobody received it", v, s.g, s.pc)
		}
		if r.ret >= 0 && r.ret < s.inv {
			return bad("value-before-send", "value %d received before its send was invoked", v)
		}
	}
	// ---- linearizability per channel
	var chans []int
	for ch := range perChan {
		chans = append(chans, ch)
	}
	sort.Ints(chans)
	for _, ch := range chans {
		h := perChan[ch]
		if len(h) > 60 {
			continue // bounded: longer histories are skipped (counted by the engine as inconclusive through probes)
		}
		switch porcupine.CheckOperationsTimeout(queueModel(sc.Caps[ch]), h, 5*time.Second) {
		case porcupine.Illegal:
			return bad("not-linearizable", "the history of channel %d (capacity %d, %d operations) is not linearizable with respect to a bounded FIFO queue with close: %s", ch, sc.Caps[ch], len(h), describeOps(h))
		}
	}
	// ---- bounded liveness: nobody may be parked on an enabled operation at the end
	if v := lostWakeup(sc, ops, cur, closedAt); v != "" {
		return bad("lost-wakeup", "%s (run ended with %q)", v, res.End)
	}
	return nil
}

func describeOps(h []porcupine.Operation) string {
	var l []string
	for _, o := range h {
		l = append(l, fmt.Sprintf("c%d[%d..%d]%v->%v", o.ClientId, o.Call, o.Return, o.Input, o.Output))
	}
	if len(l) > 24 {
		l = append(l[:24], "…")
	}
	return strings.Join(l, " ")
}

// lostWakeup reconstructs the final state of every channel from the completed operations and checks that every
// operation still in progress at the end is disabled in it.
func lostWakeup(sc *chanmodel.Scenario, ops []*lop, cur map[int]*lop, closedAt map[int]int) string {
	n := len(sc.Caps)
	buffered := make([]int, n) // completed sends - completed receives (values sitting in the buffer or in flight)
	for _, o := range ops {
		if o.ret < 0 && o.op.K != "range" {
			continue
		}
		switch o.op.K {
		case "send":
			if o.op.C >= 0 && o.res.Panic == nil {
				buffered[o.op.C]++
			}
		case "recv", "recv2":
			if o.op.C >= 0 && o.res.V != nil && (o.op.K == "recv" && *o.res.V != 0 || o.op.K == "recv2" && o.res.Ok != nil && *o.res.Ok) {
				buffered[o.op.C]--
			}
		case "range":
			if o.op.C >= 0 {
				buffered[o.op.C] -= len(o.rangeVals)
			}
		case "sel":
			if o.res.I != nil && o.res.Panic == nil {
				switch i := *o.res.I; {
				case i == 0 || i == 1:
					if o.res.Ok != nil && *o.res.Ok && o.op.R[i] >= 0 {
						buffered[o.op.R[i]]--
					}
				case i == 2 || i == 3:
					if o.op.S[i-2][0] >= 0 {
						buffered[o.op.S[i-2][0]]++
					}
				}
			}
		}
	}
	parkedSend := make([]bool, n)
	parkedRecv := make([]bool, n)
	var parked []*lop
	for _, o := range cur {
		if o == nil {
			continue
		}
		parked = append(parked, o)
		switch o.op.K {
		case "send":
			if o.op.C >= 0 {
				parkedSend[o.op.C] = true
			}
		case "recv", "recv2", "range":
			if o.op.C >= 0 {
				parkedRecv[o.op.C] = true
			}
		case "sel":
			for k := 0; k < 2; k++ {
				if o.op.R[k] >= 0 {
					parkedRecv[o.op.R[k]] = true
				}
				if o.op.S[k][0] >= 0 {
					parkedSend[o.op.S[k][0]] = true
				}
			}
		}
	}
	sort.Slice(parked, func(a, b int) bool { return parked[a].g < parked[b].g })
	sendEnabled := func(ch int, self *lop) bool {
		if ch < 0 {
			return false
		}
		if _, closed := closedAt[ch]; closed {
			return true // would panic: not parked
		}
		if buffered[ch] < sc.Caps[ch] {
			return true
		}
		// a parked receiver of another goroutine
		for _, o := range parked {
			if o != self && recvsOn(o, ch) {
				return true
			}
		}
		return false
	}
	recvEnabled := func(ch int, self *lop) bool {
		if ch < 0 {
			return false
		}
		if _, closed := closedAt[ch]; closed {
			return true
		}
		if buffered[ch] > 0 {
			return true
		}
		for _, o := range parked {
			if o != self && sendsOn(o, ch) {
				return true
			}
		}
		return false
	}
	for _, o := range parked {
		switch o.op.K {
		case "send":
			if sendEnabled(o.op.C, o) {
				return fmt.Sprintf("g%d is parked in send on channel %d although the send can proceed in the final state", o.g, o.op.C)
			}
		case "recv", "recv2", "range":
			if recvEnabled(o.op.C, o) {
				return fmt.Sprintf("g%d is parked in a receive on channel %d although the receive can proceed in the final state", o.g, o.op.C)
			}
		case "sel":
			for k := 0; k < 2; k++ {
				if recvEnabled(o.op.R[k], o) {
					return fmt.Sprintf("g%d is parked in a select whose receive case on channel %d can proceed", o.g, o.op.R[k])
				}
				if sendEnabled(o.op.S[k][0], o) {
					return fmt.Sprintf("g%d is parked in a select whose send case on channel %d can proceed", o.g, o.op.S[k][0])
				}
			}
		case "gosched", "sleep", "yield", "len", "cap", "spawn", "close", "ngo":
			return fmt.Sprintf("g%d never returned from %s", o.g, o.op.K)
		}
	}
	return ""
}

func recvsOn(o *lop, ch int) bool {
	switch o.op.K {
	case "recv", "recv2", "range":
		return o.op.C == ch
	case "sel":
		return o.op.R[0] == ch || o.op.R[1] == ch
	}
	return false
}

func sendsOn(o *lop, ch int) bool {
	switch o.op.K {
	case "send":
		return o.op.C == ch
	case "sel":
		return o.op.S[0][0] == ch || o.op.S[1][0] == ch
	}
	return false
}

// generateLarge draws a large scenario (no goexit/panic specials; every goroutine started by main).
func generateLarge(r *rng.R) *chanmodel.Scenario {
	gc := chanmodel.GenConfig{MaxG: 5 + r.Intn(4), MaxOps: 6 + r.Intn(7), MaxCh: 2 + r.Intn(2), NilChan: r.Chance(1, 5)}
	gc.Kinds = []string{"send", "send", "recv2", "recv2", "recv", "sel", "sel", "len", "gosched", "yield", "sleep"}
	if r.Chance(1, 2) {
		gc.Kinds = append(gc.Kinds, "close")
	}
	if r.Chance(1, 3) {
		gc.Kinds = append(gc.Kinds, "range")
	}
	sc := chanmodel.Generate(r, &gc)
	// at least five goroutines
	for len(sc.Gs) < 5 {
		sc.Gs = append(sc.Gs, sc.Gs[len(sc.Gs)-1])
		sc.Start = append(sc.Start, len(sc.Gs)-1)
	}
	// values must be unique and non-zero across the whole scenario: renumber
	next := 0
	for g := range sc.Gs {
		sc.Gs[g] = append([]chanmodel.Op{}, sc.Gs[g]...)
		for i := range sc.Gs[g] {
			op := &sc.Gs[g][i]
			switch op.K {
			case "send":
				next++
				op.V = next
			case "sel":
				for k := 0; k < 2; k++ {
					next++
					op.S[k][1] = next
				}
			}
		}
	}
	sc.Normalise()
	return sc
}

func hasLine(lines []string, want string) bool {
	for _, l := range lines {
		if l == want {
			return true
		}
	}
	return false
}
