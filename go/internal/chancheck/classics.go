package chancheck

import "verif/internal/chanmodel"

type op = chanmodel.Op

func base(k string) op { return op{K: k, R: [2]int{-1, -1}, S: [2][2]int{{-1, 0}, {-1, 0}}} }
func send(c, v int) op { o := base("send"); o.C, o.V = c, v; return o }
func recv(c int) op    { o := base("recv"); o.C = c; return o }
func recv2(c int) op   { o := base("recv2"); o.C = c; return o }
func cls(c int) op     { o := base("close"); o.C = c; return o }
func rng_(c int) op    { o := base("range"); o.C = c; return o }
func ln(c int) op      { o := base("len"); o.C = c; return o }
func sleep(ms int) op  { o := base("sleep"); o.Ms = ms; return o }
func gosched() op      { return base("gosched") }
func yield() op        { return base("yield") }
func spawn(g int) op   { o := base("spawn"); o.G = g; return o }
func goexit(deep bool) op {
	o := base("goexit")
	o.D = deep
	return o
}
func sel(r0, r1, s0, v0, s1, v1 int, def bool) op {
	o := base("sel")
	o.R = [2]int{r0, r1}
	o.S = [2][2]int{{s0, v0}, {s1, v1}}
	o.D = def
	return o
}

// inDefer marks the operation as performed by a deferred call that runs because of runtime.Goexit.
func inDefer(o op) op { o.X = true; return o }
func ngo() op         { return base("ngo") }

func scn(caps []int, start []int, gs ...[]op) *chanmodel.Scenario {
	if start == nil {
		start = []int{}
	}
	return &chanmodel.Scenario{Caps: caps, Gs: gs, Start: start}
}

// Classics are hand-written scenarios for the situations the property text names explicitly.
func Classics() []*chanmodel.Scenario {
	return []*chanmodel.Scenario{
		// close with parked receivers
		scn([]int{0}, []int{1, 2}, []op{yield(), sleep(2), cls(0)}, []op{recv2(0)}, []op{recv2(0), recv2(0)}),
		// close with parked plain senders
		scn([]int{0}, []int{1, 2}, []op{yield(), sleep(2), cls(0)}, []op{send(0, 11)}, []op{send(0, 12)}),
		// close with a parked selector (receive case and send case)
		scn([]int{0, 0}, []int{1}, []op{sleep(1), cls(0)}, []op{sel(0, -1, 1, 21, -1, 0, false)}),
		scn([]int{0, 0}, []int{1}, []op{sleep(1), cls(0)}, []op{sel(1, -1, 0, 22, -1, 0, false)}),
		// both-ready select
		scn([]int{1, 1}, nil, []op{send(0, 31), send(1, 32), spawn(1)}, []op{sel(0, 1, -1, 0, -1, 0, false), sel(0, 1, -1, 0, -1, 0, true)}),
		// select send+receive on one channel, two goroutines
		scn([]int{0}, []int{1}, []op{sel(0, -1, 0, 41, -1, 0, false)}, []op{sel(0, -1, 0, 42, -1, 0, false)}),
		// double close, close of nil
		scn([]int{1}, nil, []op{cls(0), cls(0), recv2(0)}),
		scn([]int{1}, nil, []op{cls(-1), send(0, 51), recv2(0)}),
		// send on closed with waiting receivers
		scn([]int{0}, []int{1}, []op{sleep(1), cls(0), send(0, 61)}, []op{recv2(0)}),
		// ping-pong with a sleeper (timers must get a turn)
		scn([]int{0, 0}, []int{1, 2}, []op{send(0, 1), recv(1), send(0, 2), recv(1), send(0, 3), recv(1)}, []op{recv(0), send(1, 71), recv(0), send(1, 72), recv(0), send(1, 73)}, []op{sleep(5), ln(0)}),
		// producer/consumer on a full buffer
		scn([]int{2}, []int{1}, []op{send(0, 81), send(0, 82), send(0, 83), send(0, 84), cls(0)}, []op{sleep(1), rng_(0)}),
		// nil channel operations never proceed: deadlock report
		scn([]int{0}, []int{1}, []op{recv(-1)}, []op{send(0, 91)}),
		// Goexit runs deferred calls and ends the goroutine, also below another frame
		scn([]int{1}, []int{1, 2}, []op{recv(0), recv(0)}, []op{send(0, 95), goexit(false)}, []op{send(0, 96), goexit(true)}),
		// everybody asleep except a sleeper: no deadlock report until the timer fired
		scn([]int{0}, []int{1}, []op{recv(0)}, []op{sleep(20), send(0, 97)}),
		// a goroutine that called Goexit is parked inside a deferred call: it still counts as a goroutine, and the
		// program is not deadlocked while somebody can wake it
		scn([]int{0, 0}, []int{1}, []op{sleep(2), ngo(), send(0, 111), recv(1), ngo()}, []op{inDefer(recv(0))}),
		scn([]int{0}, []int{1, 2}, []op{sleep(3), ngo(), recv(0), sleep(1), ngo(), recv(0), ngo()}, []op{inDefer(send(0, 112))}, []op{sleep(1), inDefer(send(0, 113))}),
		// a deferred call panics during Goexit and nothing recovers: the program ends with that panic
		scn([]int{0}, []int{1}, []op{recv(0)}, []op{sleep(1), inDefer(base("panic"))}),
		// select parked on several queues, woken through one; the other registration must vanish
		scn([]int{0, 0}, []int{1, 2}, []op{sel(0, 1, -1, 0, -1, 0, false), sel(0, 1, -1, 0, -1, 0, true)}, []op{sleep(1), send(0, 101)}, []op{sleep(3), sel(-1, -1, 1, 102, -1, 0, true)}),
	}
}

func withCbs(sc *chanmodel.Scenario, cbs ...chanmodel.Callback) *chanmodel.Scenario {
	sc.Cbs = cbs
	return sc
}

func chanop(o op, rec bool) chanmodel.Callback {
	return chanmodel.Callback{Kind: "chanop", Op: &o, Recover: rec}
}

// CallbackClassics: scenarios with JavaScript callbacks delivered by the event loop.
func CallbackClassics() []*chanmodel.Scenario {
	return []*chanmodel.Scenario{
		// a callback that would block, recovered; a later send must not reach the dead receive
		withCbs(scn([]int{0}, []int{1}, []op{sleep(3), sel(-1, -1, 0, 11, -1, 0, true)}, []op{sleep(9)}), chanop(recv(0), true)),
		withCbs(scn([]int{0}, []int{1}, []op{sleep(3), sel(0, -1, -1, 0, -1, 0, true)}, []op{sleep(9)}), chanop(send(0, 12), true)),
		withCbs(scn([]int{0}, []int{1}, []op{sleep(3), sel(0, -1, -1, 0, -1, 0, true)}, []op{sleep(9)}), chanop(send(0, 12), false)),
		withCbs(scn([]int{0, 0}, []int{1}, []op{sleep(3), sel(-1, -1, 0, 13, -1, 0, true)}, []op{sleep(9)}), chanop(sel(0, 1, -1, 0, -1, 0, false), true)),
		// a callback completing a parked goroutine's operation
		withCbs(scn([]int{0}, nil, []op{recv2(0)}), chanop(send(0, 21), false)),
		withCbs(scn([]int{0}, nil, []op{send(0, 22)}), chanop(recv2(0), true)),
		withCbs(scn([]int{1}, nil, []op{recv2(0), recv2(0)}), chanop(send(0, 23), false), chanop(cls(0), false)),
		// callbacks that spawn goroutines and echo values while everybody is parked
		withCbs(scn([]int{0}, nil, []op{recv2(0)}, []op{send(0, 31)}), chanmodel.Callback{Kind: "spawn", G: 1}, chanmodel.Callback{Kind: "echo"}),
		// a callback's receive wakes a parked sender that at once receives from the same channel (re-entrancy)
		withCbs(scn([]int{1}, []int{1}, []op{send(0, 41)}, []op{sleep(1), send(0, 42), recv2(0)}), chanop(recv2(0), false)),
		// a callback closes a channel with several parked parties; the first one woken at once uses the channel again
		withCbs(scn([]int{0}, []int{1}, []op{send(0, 51), recv2(0)}, []op{send(0, 52)}), chanop(cls(0), false)),
		withCbs(scn([]int{0}, []int{1}, []op{recv2(0), sel(-1, -1, 0, 53, -1, 0, true)}, []op{recv2(0)}), chanop(cls(0), true)),
		// the same JavaScript object handed to exposed functions again and again, mutated in between
		withCbs(scn([]int{0}, nil, []op{recv2(0)}), chanmodel.Callback{Kind: "echoobj"}, chanmodel.Callback{Kind: "echoobj"}, chanmodel.Callback{Kind: "echoobj"}, chanop(send(0, 61), false)),
		// a callback panics and one of its deferred calls blocks or panics in turn: JavaScript sees the last panic, and
		// later callbacks are not affected by what the earlier one left behind
		withCbs(scn([]int{0}, nil, []op{sleep(9)}), chanmodel.Callback{Kind: "chanop", Op: &op{K: "recv", C: 0, R: [2]int{-1, -1}, S: [2][2]int{{-1, 0}, {-1, 0}}}, Deferred: true}, chanmodel.Callback{Kind: "echo"}, chanop(ln(0), true)),
		withCbs(scn([]int{1}, nil, []op{cls(0), sleep(9)}), chanmodel.Callback{Kind: "chanop", Op: &op{K: "close", C: 0, R: [2]int{-1, -1}, S: [2][2]int{{-1, 0}, {-1, 0}}}, Deferred: true}, chanmodel.Callback{Kind: "echoobj"}, chanop(ln(0), false)),
		// exposing a function switches the deadlock report off
		withCbs(scn([]int{0}, nil, []op{base("ident"), recv(0)}), chanmodel.Callback{Kind: "echo"}),
	}
}

// pingPongWithSleeper: g0 and g1 exchange n values over two unbuffered channels; g2 sleeps 5 ms and reads len.
func pingPongWithSleeper(n int) *chanmodel.Scenario {
	var a, b []op
	for i := 0; i < n; i++ {
		a = append(a, send(0, 10000+i), recv(1))
		b = append(b, recv(0), send(1, 20000+i))
	}
	return scn([]int{0, 0}, []int{1, 2}, a, b, []op{sleep(5), ln(0)})
}
