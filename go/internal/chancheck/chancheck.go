// Package chancheck is the engine behind C03 workload A and C11: seeded scenarios for the chanscript
// interpreter, run in simnode under seeded choice tapes, judged by membership in the reference model's
// exhaustively enumerated outcome set.
package chancheck

import (
	"encoding/json"
	"fmt"
	"sort"
	"strings"
	"time"

	"verif/internal/chanmodel"
	"verif/internal/evidence"
	"verif/internal/known"
	"verif/internal/rng"
	"verif/internal/scripteng"
	"verif/internal/simpool"
)

type Verdict struct {
	Class   string
	Message string
	Outcome string
}

// Judge decides one run. It is a pure function of (scenario, explored model, result).
func Judge(sc *chanmodel.Scenario, ex *chanmodel.Explorer, res *simpool.Result) *Verdict {
	if strings.HasPrefix(res.End, "simerror:") {
		return &Verdict{Class: "INFRA", Message: res.End}
	}
	ob := chanmodel.Observe(sc, res)
	if ob.Malformed != "" {
		return &Verdict{Class: "malformed-history", Message: ob.Malformed, Outcome: ob.Outcome}
	}
	if ex.Outcomes[ob.Outcome] {
		return nil
	}
	kind := ob.Ending
	if i := strings.IndexAny(kind, ":("); i >= 0 {
		kind = kind[:i]
	}
	// what would have been allowed with this ending?
	var same []string
	for o := range ex.Outcomes {
		if strings.HasPrefix(o, ob.Ending+" |") {
			same = append(same, o)
		}
	}
	sort.Strings(same)
	msg := fmt.Sprintf("observed outcome is not allowed by Go channel semantics: %s", ob.Outcome)
	if len(same) == 0 {
		msg += fmt.Sprintf(" (no allowed outcome ends with %q; allowed endings: %s)", ob.Ending, strings.Join(endings(ex), ", "))
	} else {
		msg += fmt.Sprintf(" (nearest allowed with the same ending: %s)", same[0])
	}
	return &Verdict{Class: "outcome-" + kind, Message: msg, Outcome: ob.Outcome}
}

func endings(ex *chanmodel.Explorer) []string {
	m := map[string]bool{}
	for o := range ex.Outcomes {
		m[strings.SplitN(o, " |", 2)[0]] = true
	}
	var l []string
	for k := range m {
		l = append(l, k)
	}
	sort.Strings(l)
	return l
}

func cloneScenario(sc *chanmodel.Scenario) *chanmodel.Scenario {
	raw, _ := json.Marshal(sc)
	var n chanmodel.Scenario
	json.Unmarshal(raw, &n)
	n.Normalise()
	return &n
}

func dropGoroutine(sc *chanmodel.Scenario, g int) *chanmodel.Scenario {
	n := cloneScenario(sc)
	n.Gs = append(n.Gs[:g], n.Gs[g+1:]...)
	fix := func(x int) int {
		if x > g {
			return x - 1
		}
		return x
	}
	var st []int
	for _, s := range n.Start {
		if s != g {
			st = append(st, fix(s))
		}
	}
	n.Start = st
	if n.Start == nil {
		n.Start = []int{}
	}
	for gi := range n.Gs {
		var ops []chanmodel.Op
		for _, op := range n.Gs[gi] {
			if op.K == "spawn" {
				if op.G == g {
					continue
				}
				op.G = fix(op.G)
			}
			ops = append(ops, op)
		}
		n.Gs[gi] = ops
	}
	var cbs []chanmodel.Callback
	for _, cb := range n.Cbs {
		if cb.Kind == "spawn" {
			if cb.G == g {
				continue
			}
			cb.G = fix(cb.G)
		}
		cbs = append(cbs, cb)
	}
	n.Cbs = cbs
	return n
}

func candidates(sc *chanmodel.Scenario) []*chanmodel.Scenario {
	var out []*chanmodel.Scenario
	for g := len(sc.Gs) - 1; g >= 1; g-- {
		out = append(out, dropGoroutine(sc, g))
	}
	for i := range sc.Cbs {
		if sc.Cbs[i].Kind == "spawn" {
			continue
		}
		n := cloneScenario(sc)
		n.Cbs = append(n.Cbs[:i], n.Cbs[i+1:]...)
		out = append(out, n)
	}
	for g := range sc.Gs {
		for i := range sc.Gs[g] {
			if sc.Gs[g][i].K == "spawn" {
				continue
			}
			n := cloneScenario(sc)
			n.Gs[g] = append(n.Gs[g][:i], n.Gs[g][i+1:]...)
			out = append(out, n)
		}
	}
	simplifySel := func(op chanmodel.Op) []chanmodel.Op {
		var alts []chanmodel.Op
		if op.K != "sel" {
			return nil
		}
		live := 0
		for k := 0; k < 2; k++ {
			if op.R[k] >= 0 {
				live++
				o := op
				o.R[k] = -1
				alts = append(alts, o)
			}
			if op.S[k][0] >= 0 {
				live++
				o := op
				o.S[k] = [2]int{-1, 0}
				alts = append(alts, o)
			}
		}
		if op.D {
			o := op
			o.D = false
			alts = append(alts, o)
		}
		if live == 1 && !op.D {
			for k := 0; k < 2; k++ {
				if op.R[k] >= 0 {
					alts = append(alts, chanmodel.Op{K: "recv2", C: op.R[k], R: [2]int{-1, -1}, S: [2][2]int{{-1, 0}, {-1, 0}}})
				}
				if op.S[k][0] >= 0 {
					alts = append(alts, chanmodel.Op{K: "send", C: op.S[k][0], V: op.S[k][1], R: [2]int{-1, -1}, S: [2][2]int{{-1, 0}, {-1, 0}}})
				}
			}
		}
		return alts
	}
	for g := range sc.Gs {
		for i := range sc.Gs[g] {
			for _, alt := range simplifySel(sc.Gs[g][i]) {
				n := cloneScenario(sc)
				n.Gs[g][i] = alt
				out = append(out, n)
			}
			switch sc.Gs[g][i].K {
			case "sleep", "gosched", "yield":
			default:
				continue
			}
		}
	}
	for i := range sc.Cbs {
		if sc.Cbs[i].Op != nil {
			for _, alt := range simplifySel(*sc.Cbs[i].Op) {
				n := cloneScenario(sc)
				a := alt
				n.Cbs[i].Op = &a
				out = append(out, n)
			}
		}
	}
	for c := range sc.Caps {
		if sc.Caps[c] > 0 {
			n := cloneScenario(sc)
			n.Caps[c]--
			out = append(out, n)
		}
	}
	return out
}

// ---------------------------------------------------------------- scripteng adapter

type chanCase struct {
	sc        *chanmodel.Scenario
	ex        *chanmodel.Explorer
	maxStates int
	cfg       map[string]any
}

func (c *chanCase) SimCfg() map[string]any { return c.cfg }

func newCase(sc *chanmodel.Scenario, maxStates int) *chanCase {
	sc.Normalise()
	if sc.Validate() != nil {
		return nil
	}
	ex := chanmodel.NewExplorer(sc, maxStates)
	if !ex.Explore() {
		return nil
	}
	return &chanCase{sc: sc, ex: ex, maxStates: maxStates}
}

func (c *chanCase) JSON() json.RawMessage { b, _ := json.Marshal(c.sc); return b }
func (c *chanCase) Callbacks() []simpool.CallbackSpec {
	var cbs []simpool.CallbackSpec
	for i := range c.sc.Cbs {
		spec := simpool.CallbackSpec{Fn: fmt.Sprintf("cb%d", i), Args: []any{1000 + i, fmt.Sprintf("arg%d", i)}}
		if c.sc.Cbs[i].Kind == "echoobj" {
			spec.Shared = "shared"
		}
		cbs = append(cbs, spec)
	}
	return cbs
}
func (c *chanCase) Judge(res *simpool.Result) *scripteng.Verdict {
	v := Judge(c.sc, c.ex, res)
	if v == nil {
		return nil
	}
	return &scripteng.Verdict{Class: v.Class, Message: v.Message, Digest: v.Outcome}
}
func (c *chanCase) Candidates() []scripteng.Case {
	var out []scripteng.Case
	if len(c.sc.Gs) > 0 && len(c.sc.Gs[0]) > 400 {
		return nil // the long liveness scenario is its own minimal form
	}
	for _, sc := range candidates(c.sc) {
		if nc := newCase(sc, c.maxStates); nc != nil {
			nc.cfg = c.cfg
			out = append(out, nc)
		}
	}
	return out
}
func (c *chanCase) Reach() []string {
	var l []string
	for k := range c.ex.Reach {
		l = append(l, k)
	}
	for k := range c.sc.Features() {
		l = append(l, k)
	}
	if len(c.ex.Outcomes) > 1 {
		l = append(l, "several_allowed_outcomes")
	}
	sort.Strings(l)
	return l
}
func (c *chanCase) Sample(res *simpool.Result) any {
	return map[string]any{"scenario": c.sc, "allowed_outcomes": c.ex.SortedOutcomes(), "observed": chanmodel.Observe(c.sc, res).Outcome, "tape": res.Tape}
}
func (c *chanCase) ModelSize() (int, int) { return c.ex.States, c.ex.Trans }
func (c *chanCase) KnownFinding(kf *known.File, property string, v *scripteng.Verdict) string {
	return kf.MatchChan(property, c.sc, v.Class, v.Message)
}

type Options struct {
	Property    string
	Tier        string
	Seed        int64
	Callbacks   bool
	Cases       int
	RunsPerCase int
	Workers     int
	MaxStates   int
	Curated     []*chanmodel.Scenario
	Budget      time.Duration
}

func spec(opt Options) scripteng.Spec {
	sp := scripteng.Spec{Property: opt.Property, Tier: opt.Tier, Seed: opt.Seed, Workload: "chanscript", ReplayKind: "chanscript",
		Cases: opt.Cases, RunsPerCase: opt.RunsPerCase, Workers: opt.Workers, Budget: opt.Budget,
		Rule: "one evaluation = one simulated execution of a chanscript scenario under one choice tape; distinct = distinct (scenario, global order of operation invoke/return events across goroutines); " +
			"non-trivial = at least one operation parked (its return is not adjacent to its invoke in the global history)",
		Real: []string{"gopherjs compiler built from /repo working tree", "prelude goroutines.js/types.js/prelude.js/jsmapping.js", "runtime and js natives", "chanscript compiled by that compiler"},
		Stub: []string{"Node event loop and timers (simnode)", "Date.now", "Math.random", "process.exit", "console"},
		Assumptions: []string{
			"the simulated event loop only produces behaviours Node/HTML timers allow (timers never early; a timer never overtakes an earlier-created one with a delay <= its own)",
			"the reference model (DESIGN.md Appendix A) is Go's channel semantics; it was written from the specification, not from the prelude",
			"workload programs only use packages that build against the sandbox's GOROOT",
		},
	}
	for _, sc := range opt.Curated {
		c := newCase(sc, 2000000)
		if c == nil {
			panic("curated scenario invalid or too large")
		}
		sp.Curated = append(sp.Curated, c)
	}
	if !opt.Callbacks {
		// liveness: two goroutines ping-pong for a long time while a third sleeps briefly. With a wall clock that
		// advances 3 ms per scheduler step, a runtime that never returns to the event loop consumes far more
		// than the starvation bound (5 simulated seconds) inside one loop turn; a sane time slice never does.
		c := newCase(pingPongWithSleeper(1200), 2000000)
		if c == nil {
			panic("ping-pong scenario too large")
		}
		c.cfg = map[string]any{"tickDeltas": []int{3}, "tickWeights": []int{1}, "budget": 400000, "yieldWeights": []int{1, 0}}
		sp.Curated = append(sp.Curated, c)
	}
	nCur := len(opt.Curated)
	sp.Generate = func(seed int64, i int) scripteng.Case {
		r := rng.New(seed, opt.Property, "case", i-nCur)
		gc := chanmodel.NewGenConfig(rng.New(seed, opt.Property, "swarm", (i-nCur)/25), opt.Callbacks)
		sc := chanmodel.Generate(r, &gc)
		if err := sc.Validate(); err != nil {
			panic("generator produced an invalid scenario: " + err.Error())
		}
		c := newCase(sc, opt.MaxStates)
		if c == nil {
			return nil
		}
		return c
	}
	sp.Decode = func(raw json.RawMessage) (scripteng.Case, error) {
		var sc chanmodel.Scenario
		if err := json.Unmarshal(raw, &sc); err != nil {
			return nil, err
		}
		c := newCase(&sc, 2000000)
		if c == nil {
			return nil, fmt.Errorf("scenario invalid or model too large")
		}
		return c, nil
	}
	return sp
}

func Run(opt Options) int { return scripteng.Run(spec(opt)) }

func RunCollect(opt Options) (int, *evidence.Evidence) { return scripteng.RunCollect(spec(opt)) }

func Replay(rp *evidence.Replay) int {
	return scripteng.Replay(spec(Options{Property: rp.Property}), rp)
}

// Digest is the determinism probe used by `./check selftest`.
func Digest(opt Options, n, k int) (string, error) { return scripteng.Digest(spec(opt), n, k) }

// RunLargeCollect runs the large-configuration workload (history invariants + porcupine + bounded liveness).
func RunLargeCollect(opt Options) (int, *evidence.Evidence) {
	sp := spec(opt)
	sp.Curated = nil
	sp.Rule = "workload A' (large configurations): one evaluation = one simulated execution of a 5-8 goroutine chanscript scenario under one choice tape, judged by history invariants, per-channel linearizability (porcupine, bounded FIFO queue with close) and a lost-wake-up check on the final state"
	sp.Generate = func(seed int64, i int) scripteng.Case {
		sc := generateLarge(rng.New(seed, opt.Property, "large", i))
		if err := sc.Validate(); err != nil {
			panic("large generator produced an invalid scenario: " + err.Error())
		}
		return &largeCase{sc}
	}
	sp.Decode = func(raw json.RawMessage) (scripteng.Case, error) {
		var sc chanmodel.Scenario
		if err := json.Unmarshal(raw, &sc); err != nil {
			return nil, err
		}
		sc.Normalise()
		return &largeCase{&sc}, nil
	}
	sp.ReplayKind = "chanscript-large"
	return scripteng.RunCollect(sp)
}

func ReplayLarge(rp *evidence.Replay) int {
	sp := spec(Options{Property: rp.Property})
	sp.Decode = func(raw json.RawMessage) (scripteng.Case, error) {
		var sc chanmodel.Scenario
		if err := json.Unmarshal(raw, &sc); err != nil {
			return nil, err
		}
		sc.Normalise()
		return &largeCase{&sc}, nil
	}
	return scripteng.Replay(sp, rp)
}
