// Package chancheck is the engine behind C03 workload A and C11: seeded scenarios for the chanscript
// interpreter, run in simnode under seeded choice tapes, judged by membership in the reference model's
// exhaustively enumerated outcome set.
package chancheck

import (
	"encoding/json"
	"fmt"
	"os"
	"path/filepath"
	"sort"
	"strings"
	"sync"
	"time"

	"verif/internal/chanmodel"
	"verif/internal/evidence"
	"verif/internal/jbuild"
	"verif/internal/known"
	"verif/internal/rng"
	"verif/internal/simpool"
)

type Options struct {
	Property    string
	Tier        string
	Seed        int64
	Callbacks   bool
	Cases       int
	RunsPerCase int
	Workers     int
	MaxStates   int
	Curated     []*chanmodel.Scenario
	Budget      time.Duration // wall-clock cap for the batch
}

type Verdict struct {
	Class   string
	Message string
	Outcome string
}

// Judge decides one run. It is a pure function of (scenario, explored model, result).
func Judge(sc *chanmodel.Scenario, ex *chanmodel.Explorer, res *simpool.Result) *Verdict {
	if strings.HasPrefix(res.End, "simerror:") {
		return &Verdict{Class: "INFRA", Message: res.End}
	}
	ob := chanmodel.Observe(sc, res)
	if ob.Malformed != "" {
		return &Verdict{Class: "malformed-history", Message: ob.Malformed, Outcome: ob.Outcome}
	}
	if ex.Outcomes[ob.Outcome] {
		return nil
	}
	kind := ob.Ending
	if i := strings.IndexAny(kind, ":("); i >= 0 {
		kind = kind[:i]
	}
	// what would have been allowed with this ending?
	var same []string
	for o := range ex.Outcomes {
		if strings.HasPrefix(o, ob.Ending+" |") {
			same = append(same, o)
		}
	}
	sort.Strings(same)
	msg := fmt.Sprintf("observed outcome is not allowed by Go channel semantics: %s", ob.Outcome)
	if len(same) == 0 {
		msg += fmt.Sprintf(" (no allowed outcome ends with %q; allowed endings: %s)", ob.Ending, strings.Join(endings(ex), ", "))
	} else {
		msg += fmt.Sprintf(" (nearest allowed with the same ending: %s)", same[0])
	}
	return &Verdict{Class: "outcome-" + kind, Message: msg, Outcome: ob.Outcome}
}

func endings(ex *chanmodel.Explorer) []string {
	m := map[string]bool{}
	for o := range ex.Outcomes {
		m[strings.SplitN(o, " |", 2)[0]] = true
	}
	var l []string
	for k := range m {
		l = append(l, k)
	}
	sort.Strings(l)
	return l
}

type failure struct {
	caseIdx int
	run     int
	sc      *chanmodel.Scenario
	cfg     map[string]any
	tape    []int
	v       *Verdict
	known   string
}

type engine struct {
	opt    Options
	env    *jbuild.Env
	pool   *simpool.Pool
	script string
}

func simCfg(r *rng.R) map[string]any {
	cfg := map[string]any{}
	switch r.Intn(4) {
	case 0: // calm: few suspensions, no clock trouble
		cfg["yieldWeights"] = []int{6, 1}
		cfg["tickWeights"] = []int{40, 4, 1, 0, 0, 0, 0}
	case 1: // busy: many suspensions and slice breaks
		cfg["yieldWeights"] = []int{1, 1}
		cfg["tickWeights"] = []int{10, 4, 2, 2, 6, 3, 1}
	case 2: // clock trouble
		cfg["tickWeights"] = []int{10, 2, 2, 2, 3, 3, 6}
		cfg["lateWeights"] = []int{2, 2, 2, 2, 2}
	default:
	}
	if r.Chance(1, 4) {
		cfg["reorder"] = false
	}
	if r.Chance(1, 3) {
		cfg["cbWeights"] = []int{1, 2}
	}
	return cfg
}

func (e *engine) explore(sc *chanmodel.Scenario) *chanmodel.Explorer {
	ex := chanmodel.NewExplorer(sc, e.opt.MaxStates)
	if !ex.Explore() {
		return nil
	}
	return ex
}

func callbacksOf(sc *chanmodel.Scenario) []simpool.CallbackSpec {
	var cbs []simpool.CallbackSpec
	for i := range sc.Cbs {
		cbs = append(cbs, simpool.CallbackSpec{Fn: fmt.Sprintf("cb%d", i), Args: []any{1000 + i, fmt.Sprintf("arg%d", i)}})
	}
	return cbs
}

func (e *engine) runScenario(id int, sc *chanmodel.Scenario, cfg map[string]any, runs []simpool.Run) ([]simpool.Result, error) {
	raw, _ := json.Marshal(sc)
	job := &simpool.Job{ID: id, Script: e.script, Scenario: raw, Cfg: cfg, Runs: runs, Callbacks: callbacksOf(sc)}
	jr, err := e.pool.Do(job)
	if err != nil {
		return nil, err
	}
	return jr.Results, nil
}

// Run executes the batch and returns the process exit code.
func Run(opt Options) int {
	start := time.Now()
	env, err := jbuild.Setup(strings.ToLower(opt.Property))
	if err != nil {
		fmt.Fprintln(os.Stderr, err)
		return 2
	}
	defer env.Cleanup()
	wl, err := env.CopyWorkload("chanscript")
	if err != nil {
		fmt.Fprintln(os.Stderr, err)
		return 2
	}
	script := filepath.Join(env.Scratch, "chanscript.js")
	if err := env.Compile(wl, script, false, ""); err != nil {
		fmt.Fprintln(os.Stderr, err)
		return 2
	}
	pool, err := simpool.New(filepath.Join(env.Verif, "sim", "simnode.js"), opt.Workers)
	if err != nil {
		fmt.Fprintln(os.Stderr, err)
		return 2
	}
	defer pool.Close()
	e := &engine{opt: opt, env: env, pool: pool, script: script}

	kf, err := known.Load(env.Verif)
	if err != nil {
		fmt.Fprintln(os.Stderr, err)
		return 2
	}

	counters := evidence.NewCounter()
	interleavings := evidence.NewSet()
	nontrivial := evidence.NewSet()
	scenarios := evidence.NewSet()
	var mu sync.Mutex
	var failures []*failure
	var infra error
	var samples []any
	modelStates, modelTrans := 0, 0

	total := opt.Cases + len(opt.Curated)
	idx := make(chan int, total)
	for i := 0; i < total; i++ {
		idx <- i
	}
	close(idx)
	deadline := start.Add(opt.Budget)
	var wg sync.WaitGroup
	for w := 0; w < opt.Workers; w++ {
		wg.Add(1)
		go func() {
			defer wg.Done()
			for i := range idx {
				if time.Now().After(deadline) {
					counters.Add("cases_skipped_wallclock", 1)
					continue
				}
				mu.Lock()
				stop := infra != nil || len(failures) >= 40
				mu.Unlock()
				if stop {
					continue
				}
				var sc *chanmodel.Scenario
				r := rng.New(opt.Seed, opt.Property, "case", i)
				if i < len(opt.Curated) {
					sc = opt.Curated[i]
					counters.Add("curated", 1)
				} else {
					gc := chanmodel.NewGenConfig(rng.New(opt.Seed, opt.Property, "swarm", i/25), opt.Callbacks)
					sc = chanmodel.Generate(r, &gc)
				}
				ex := e.explore(sc)
				if ex == nil {
					counters.Add("scenarios_discarded_model_too_large", 1)
					continue
				}
				cfg := simCfg(r)
				runs := make([]simpool.Run, opt.RunsPerCase)
				for k := range runs {
					runs[k] = simpool.Run{Seed: rng.Derive(opt.Seed, opt.Property, "tape", i, k)}
				}
				if len(runs) > 0 {
					runs[0] = simpool.Run{Tape: []int{}} // the all-default tape: the schedule real Node would most likely produce
				}
				results, err := e.runScenario(i, sc, cfg, runs)
				if err != nil {
					mu.Lock()
					if infra == nil {
						infra = err
					}
					mu.Unlock()
					continue
				}
				raw, _ := json.Marshal(sc)
				scKey := string(raw)
				scenarios.Add(scKey)
				mu.Lock()
				modelStates += ex.States
				modelTrans += ex.Trans
				if len(samples) < 3 {
					samples = append(samples, map[string]any{"scenario": sc, "allowed_outcomes": ex.SortedOutcomes(), "observed_first_run": chanmodel.Observe(sc, &results[0]).Outcome, "tape_first_seeded_run": results[len(results)-1].Tape})
				}
				mu.Unlock()
				for k := range ex.Reach {
					counters.Add("model_reach:"+k, 1)
				}
				counters.Add("allowed_outcomes_total", len(ex.Outcomes))
				if len(ex.Outcomes) > 1 {
					counters.Add("scenarios_with_several_allowed_outcomes", 1)
				}
				for k := range results {
					res := &results[k]
					counters.Add("runs", 1)
					counters.Add("sim_ms", res.SimMs)
					counters.Add("loop_turns", res.Turns)
					counters.AddAll(prefix("fired:", res.Fired))
					il, parked := interleaving(res)
					interleavings.Add(scKey + il)
					if parked {
						nontrivial.Add(scKey + il)
					}
					counters.Add("ending:"+endKind(res.End), 1)
					v := Judge(sc, ex, res)
					if v == nil {
						continue
					}
					if v.Class == "INFRA" {
						mu.Lock()
						if infra == nil {
							infra = fmt.Errorf("%s", v.Message)
						}
						mu.Unlock()
						continue
					}
					f := &failure{caseIdx: i, run: k, sc: sc, cfg: cfg, tape: res.Tape, v: v}
					mu.Lock()
					failures = append(failures, f)
					mu.Unlock()
					break // one failure per scenario is enough; it will be minimised
				}
			}
		}()
	}
	wg.Wait()
	if infra != nil {
		fmt.Fprintln(os.Stderr, "infrastructure failure:", infra)
		return 2
	}

	// ---- triage: minimise, match against known findings, report
	sort.Slice(failures, func(a, b int) bool { return failures[a].caseIdx < failures[b].caseIdx })
	violations := 0
	knownHits := map[string]int{}
	reported := map[string]bool{}
	minimised := 0
	for _, f := range failures {
		if err := f.sc.Validate(); err != nil {
			fmt.Fprintln(os.Stderr, "generator produced an invalid scenario:", err)
			return 2
		}
		if id := kf.MatchChan(opt.Property, f.sc, f.v.Class, f.v.Message); id != "" {
			knownHits[id]++
			continue
		}
		if reported[f.v.Class] && minimised >= 3 {
			violations++
			continue
		}
		minimised++
		msc, mtape, mv := e.minimise(f)
		// a minimised failure may turn out to be a listed finding after all
		if id := kf.MatchChan(opt.Property, msc, mv.Class, mv.Message); id != "" {
			knownHits[id]++
			continue
		}
		violations++
		reported[f.v.Class] = true
		raw, _ := json.Marshal(msc)
		rp := &evidence.Replay{Property: opt.Property, Class: mv.Class, Message: mv.Message, Kind: "chanscript", Workload: raw, Sim: f.cfg, Tape: mtape,
			Digest: evidence.Digest(mv.Class, mv.Outcome), Seed: opt.Seed, FoundAt: fmt.Sprintf("%s case %d run %d", opt.Tier, f.caseIdx, f.run)}
		path, err := evidence.WriteReplay(env.Verif, rp)
		if err != nil {
			fmt.Fprintln(os.Stderr, err)
			return 2
		}
		fmt.Printf("VIOLATION property=%s replay=%s\n", opt.Property, path)
		fmt.Printf("  class=%s %s\n", mv.Class, mv.Message)
	}
	var kids []string
	for id := range knownHits {
		kids = append(kids, id)
	}
	sort.Strings(kids)
	for _, id := range kids {
		fmt.Printf("KNOWN-FINDING: property=%s %s (%d runs)\n", opt.Property, kf.Describe(id), knownHits[id])
	}

	wall := time.Since(start).Seconds()
	runs := counters.Get("runs")
	ev := &evidence.Evidence{PropertyID: opt.Property, Tier: opt.Tier, Seed: opt.Seed, Level: "exploration", WallS: wall, Violations: violations,
		Coverage: map[string]any{
			"evaluations":         runs,
			"distinct_nontrivial": nontrivial.Len(),
			"rule": "one evaluation = one simulated execution of a chanscript scenario under one choice tape; distinct = distinct (scenario, sequence of operation invoke/return events across goroutines); " +
				"non-trivial = at least one operation parked (its return is not adjacent to its invoke in the global history)",
			"samples":                 samples,
			"scenarios":               scenarios.Len(),
			"distinct_interleavings":  interleavings.Len(),
			"model_states_explored":   modelStates,
			"model_transitions":       modelTrans,
			"simulated_ms":            counters.Get("sim_ms"),
			"runs_per_hour":           int(float64(runs) / wall * 3600),
			"counters":                counters.Map(),
			"known_finding_hits":      knownHits,
			"real_components":         []string{"gopherjs compiler built from /repo working tree", "prelude goroutines.js/types.js/prelude.js/jsmapping.js", "runtime and js natives", "chanscript compiled by that compiler"},
			"stubbed_components":      []string{"Node event loop and timers (simnode)", "Date.now", "Math.random", "process.exit", "console"},
			"seeds_per_scenario":      opt.RunsPerCase,
		},
		Assumptions: []string{
			"the simulated event loop only produces behaviours Node/HTML timers allow (timers never early; a timer never overtakes an earlier-created one with a delay <= its own)",
			"the reference model (DESIGN.md Appendix A) is Go's channel semantics; it was written from the specification, not from the prelude",
			"workload programs only use packages that build against the sandbox's GOROOT",
		},
	}
	if err := ev.Write(env.Verif); err != nil {
		fmt.Fprintln(os.Stderr, err)
		return 2
	}
	fmt.Printf("%s %s: %d scenarios, %d runs, %d distinct interleavings (%d non-trivial), %d violations, %d known-finding hits, %.1fs\n",
		opt.Property, opt.Tier, scenarios.Len(), runs, interleavings.Len(), nontrivial.Len(), violations, len(kids), wall)
	if violations > 0 {
		return 1
	}
	return 0
}

func prefix(p string, m map[string]int) map[string]int {
	o := map[string]int{}
	for k, v := range m {
		o[p+k] = v
	}
	return o
}

func endKind(end string) string {
	if i := strings.Index(end, ":"); i >= 0 && !strings.HasPrefix(end, "exit:") {
		return end[:i]
	}
	return end
}

// interleaving returns a digest of the global order of operation events and whether anything parked.
func interleaving(res *simpool.Result) (string, bool) {
	var b strings.Builder
	parked := false
	last := ""
	for _, h := range res.Hist {
		if len(h.A) < 3 {
			continue
		}
		cur := string(h.A[0]) + "." + string(h.A[1])
		ph := string(h.A[2])
		b.WriteString(cur)
		b.WriteString(ph)
		if ph == `"ret"` && last != cur {
			parked = true
		}
		if ph == `"inv"` {
			last = cur
		} else if ph != `"rv"` {
			last = ""
		}
	}
	return evidence.Digest(b.String()), parked
}

// ---------------------------------------------------------------- minimisation

func (e *engine) failing(sc *chanmodel.Scenario, cfg map[string]any, tape []int, class string, extraSeeds int, tag string) ([]int, *Verdict) {
	ex := e.explore(sc)
	if ex == nil {
		return nil, nil
	}
	runs := []simpool.Run{{Tape: tape}, {Tape: []int{}}}
	for k := 0; k < extraSeeds; k++ {
		runs = append(runs, simpool.Run{Seed: rng.Derive("shrink", tag, k)})
	}
	results, err := e.runScenario(-1, sc, cfg, runs)
	if err != nil {
		return nil, nil
	}
	for k := range results {
		if v := Judge(sc, ex, &results[k]); v != nil && v.Class == class {
			return results[k].Tape, v
		}
	}
	return nil, nil
}

func cloneScenario(sc *chanmodel.Scenario) *chanmodel.Scenario {
	raw, _ := json.Marshal(sc)
	var n chanmodel.Scenario
	json.Unmarshal(raw, &n)
	n.Normalise()
	return &n
}

func dropGoroutine(sc *chanmodel.Scenario, g int) *chanmodel.Scenario {
	n := cloneScenario(sc)
	n.Gs = append(n.Gs[:g], n.Gs[g+1:]...)
	fix := func(x int) int {
		if x > g {
			return x - 1
		}
		return x
	}
	var st []int
	for _, s := range n.Start {
		if s != g {
			st = append(st, fix(s))
		}
	}
	n.Start = st
	if n.Start == nil {
		n.Start = []int{}
	}
	for gi := range n.Gs {
		var ops []chanmodel.Op
		for _, op := range n.Gs[gi] {
			if op.K == "spawn" {
				if op.G == g {
					continue
				}
				op.G = fix(op.G)
			}
			ops = append(ops, op)
		}
		n.Gs[gi] = ops
	}
	var cbs []chanmodel.Callback
	for _, cb := range n.Cbs {
		if cb.Kind == "spawn" {
			if cb.G == g {
				continue
			}
			cb.G = fix(cb.G)
		}
		cbs = append(cbs, cb)
	}
	n.Cbs = cbs
	return n
}

func candidates(sc *chanmodel.Scenario) []*chanmodel.Scenario {
	var out []*chanmodel.Scenario
	for g := len(sc.Gs) - 1; g >= 1; g-- {
		out = append(out, dropGoroutine(sc, g))
	}
	for i := range sc.Cbs {
		if sc.Cbs[i].Kind == "spawn" {
			continue
		}
		n := cloneScenario(sc)
		n.Cbs = append(n.Cbs[:i], n.Cbs[i+1:]...)
		out = append(out, n)
	}
	for g := range sc.Gs {
		for i := range sc.Gs[g] {
			if sc.Gs[g][i].K == "spawn" {
				continue
			}
			n := cloneScenario(sc)
			n.Gs[g] = append(n.Gs[g][:i], n.Gs[g][i+1:]...)
			out = append(out, n)
		}
	}
	simplifySel := func(op chanmodel.Op) []chanmodel.Op {
		var alts []chanmodel.Op
		if op.K != "sel" {
			return nil
		}
		live := 0
		for k := 0; k < 2; k++ {
			if op.R[k] >= 0 {
				live++
				o := op
				o.R[k] = -1
				alts = append(alts, o)
			}
			if op.S[k][0] >= 0 {
				live++
				o := op
				o.S[k] = [2]int{-1, 0}
				alts = append(alts, o)
			}
		}
		if op.D {
			o := op
			o.D = false
			alts = append(alts, o)
		}
		if live == 1 && !op.D {
			for k := 0; k < 2; k++ {
				if op.R[k] >= 0 {
					alts = append(alts, chanmodel.Op{K: "recv2", C: op.R[k], R: [2]int{-1, -1}, S: [2][2]int{{-1, 0}, {-1, 0}}})
				}
				if op.S[k][0] >= 0 {
					alts = append(alts, chanmodel.Op{K: "send", C: op.S[k][0], V: op.S[k][1], R: [2]int{-1, -1}, S: [2][2]int{{-1, 0}, {-1, 0}}})
				}
			}
		}
		return alts
	}
	for g := range sc.Gs {
		for i := range sc.Gs[g] {
			for _, alt := range simplifySel(sc.Gs[g][i]) {
				n := cloneScenario(sc)
				n.Gs[g][i] = alt
				out = append(out, n)
			}
			switch sc.Gs[g][i].K {
			case "sleep", "gosched", "yield":
			default:
				continue
			}
		}
	}
	for i := range sc.Cbs {
		if sc.Cbs[i].Op != nil {
			for _, alt := range simplifySel(*sc.Cbs[i].Op) {
				n := cloneScenario(sc)
				a := alt
				n.Cbs[i].Op = &a
				out = append(out, n)
			}
		}
	}
	for c := range sc.Caps {
		if sc.Caps[c] > 0 {
			n := cloneScenario(sc)
			n.Caps[c]--
			out = append(out, n)
		}
	}
	return out
}

func (e *engine) minimise(f *failure) (*chanmodel.Scenario, []int, *Verdict) {
	sc, tape, v := f.sc, f.tape, f.v
	evals := 0
	for changed := true; changed && evals < 400; {
		changed = false
		for ci, cand := range candidates(sc) {
			evals++
			if evals >= 400 {
				break
			}
			cand.Normalise()
			if cand.Validate() != nil {
				continue
			}
			if t, nv := e.failing(cand, f.cfg, tape, v.Class, 6, fmt.Sprint(evals, ci)); nv != nil {
				sc, tape, v = cand, t, nv
				changed = true
				break
			}
		}
	}
	// tape: shortest failing prefix (missing entries read as 0), then zero what can be zeroed
	try := func(t []int) bool {
		if nt, nv := e.failing(sc, f.cfg, t, v.Class, 0, ""); nv != nil && equalInts(nt[:min(len(nt), len(t))], t[:min(len(nt), len(t))]) {
			v = nv
			return true
		}
		return false
	}
	lo, hi := 0, len(tape)
	for lo < hi {
		mid := (lo + hi) / 2
		if try(tape[:mid]) {
			hi = mid
		} else {
			lo = mid + 1
		}
	}
	if hi <= len(tape) && try(tape[:hi]) {
		tape = append([]int{}, tape[:hi]...)
	}
	for i := 0; i < len(tape) && i < 300; i++ {
		if tape[i] == 0 {
			continue
		}
		old := tape[i]
		tape[i] = 0
		if !try(tape) {
			tape[i] = old
		}
	}
	// settle the verdict for the final pair
	if _, nv := e.failing(sc, f.cfg, tape, v.Class, 0, ""); nv != nil {
		v = nv
	}
	return sc, tape, v
}

func equalInts(a, b []int) bool {
	if len(a) != len(b) {
		return false
	}
	for i := range a {
		if a[i] != b[i] {
			return false
		}
	}
	return true
}

// ---------------------------------------------------------------- replay

// Replay re-executes a replay file against the current tree. Exit 1 when the violation reproduces with
// the same class and digest, 0 when it no longer does, 2 on infrastructure trouble.
func Replay(rp *evidence.Replay) int {
	env, err := jbuild.Setup("replay")
	if err != nil {
		fmt.Fprintln(os.Stderr, err)
		return 2
	}
	defer env.Cleanup()
	wl, err := env.CopyWorkload("chanscript")
	if err != nil {
		fmt.Fprintln(os.Stderr, err)
		return 2
	}
	script := filepath.Join(env.Scratch, "chanscript.js")
	if err := env.Compile(wl, script, false, ""); err != nil {
		fmt.Fprintln(os.Stderr, err)
		return 2
	}
	pool, err := simpool.New(filepath.Join(env.Verif, "sim", "simnode.js"), 1)
	if err != nil {
		fmt.Fprintln(os.Stderr, err)
		return 2
	}
	defer pool.Close()
	var sc chanmodel.Scenario
	if err := json.Unmarshal(rp.Workload, &sc); err != nil {
		fmt.Fprintln(os.Stderr, err)
		return 2
	}
	e := &engine{opt: Options{MaxStates: 2000000}, env: env, pool: pool, script: script}
	ex := e.explore(&sc)
	if ex == nil {
		fmt.Fprintln(os.Stderr, "model too large")
		return 2
	}
	tape := rp.Tape
	if tape == nil {
		tape = []int{}
	}
	results, err := e.runScenario(1, &sc, rp.Sim, []simpool.Run{{Tape: tape}})
	if err != nil {
		fmt.Fprintln(os.Stderr, err)
		return 2
	}
	v := Judge(&sc, ex, &results[0])
	fmt.Printf("replay: end=%s\n", results[0].End)
	for _, h := range results[0].Hist {
		fmt.Printf("  #%d turn %d %s\n", h.N, h.T, joinRaw(h.A))
	}
	for _, l := range results[0].Out {
		fmt.Printf("  out: %s\n", l)
	}
	if v == nil {
		fmt.Println("replay: the recorded execution is now allowed (no violation)")
		return 0
	}
	d := evidence.Digest(v.Class, v.Outcome)
	fmt.Printf("replay: class=%s digest=%s (recorded class=%s digest=%s)\n  %s\n", v.Class, d, rp.Class, rp.Digest, v.Message)
	if v.Class == rp.Class && d == rp.Digest {
		fmt.Printf("VIOLATION property=%s replay=%s\n", rp.Property, os.Getenv("VERIF_REPLAY_PATH"))
		return 1
	}
	fmt.Println("replay: a different violation than recorded")
	return 1
}

func joinRaw(a []json.RawMessage) string {
	var s []string
	for _, x := range a {
		s = append(s, string(x))
	}
	return strings.Join(s, " ")
}
