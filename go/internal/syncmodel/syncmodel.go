// Package syncmodel is the oracle for C13's concurrency facet: sequential reference state machines for the
// nosync primitives and for sync/atomic, written from the documented contracts of sync and sync/atomic (not
// from the overrides), stepped over the recorded history in global stamp order.
//
// Because goroutines are cooperative, an operation without a user callback must be atomic: its return record
// must directly follow its invoke record. Operations with a callback (Once.Do, Map.Range, Pool.Get calling
// New) genuinely overlap with other goroutines' operations when the callback suspends; their contracts are
// checked as such (see the per-type comments).
package syncmodel

import (
	"encoding/json"
	"fmt"
	"sort"
	"strings"

	"verif/internal/simpool"
)

type Op struct {
	K    string `json:"k"`
	O    int    `json:"o"`
	A    []any  `json:"a"`
	Cb   []Op   `json:"cb"`
	Stop int    `json:"stop"`
}

type Scenario struct {
	Gs      [][]Op  `json:"gs"`
	PoolNew [2][]Op `json:"poolNew"` // nil: the pool has no New function
}

func (sc *Scenario) Normalise() {
	var fix func(ops []Op) []Op
	fix = func(ops []Op) []Op {
		if ops == nil {
			ops = []Op{}
		}
		for i := range ops {
			if ops[i].A == nil {
				ops[i].A = []any{}
			}
			ops[i].Cb = fix(ops[i].Cb)
		}
		return ops
	}
	for g := range sc.Gs {
		sc.Gs[g] = fix(sc.Gs[g])
	}
	for i := range sc.PoolNew {
		if sc.PoolNew[i] != nil {
			sc.PoolNew[i] = fix(sc.PoolNew[i])
		}
	}
}

// lookup resolves a (goroutine, pc) pair of the history to its operation; nested operations are numbered
// (outer+1)*100+j.
func (sc *Scenario) lookup(g, pc int) (*Op, error) {
	if g < 0 || g >= len(sc.Gs) {
		return nil, fmt.Errorf("goroutine %d out of range", g)
	}
	if pc < 100 {
		if pc < 0 || pc >= len(sc.Gs[g]) {
			return nil, fmt.Errorf("g%d: op %d out of range", g, pc)
		}
		return &sc.Gs[g][pc], nil
	}
	outer, j := pc/100-1, pc%100
	parent, err := sc.lookup(g, outer)
	if err != nil {
		return nil, err
	}
	list := parent.Cb
	if parent.K == "pool.get" {
		list = sc.PoolNew[parent.O]
	}
	if j >= len(list) {
		return nil, fmt.Errorf("g%d: nested op %d of %d out of range", g, j, outer)
	}
	return &list[j], nil
}

type rawRes struct {
	V     *int64  `json:"v"`
	Ok    *bool   `json:"ok"`
	N     *int    `json:"n"`
	W     []int64 `json:"w"`
	X     []any   `json:"x"`
	Nil   *bool   `json:"nil"`
	Panic *string `json:"panic"`
}

type rangeTrack struct {
	g, pc    int
	o        int
	visited  map[int]bool
	possible map[int]map[int]bool // key -> values it held at some point during the call
	always   map[int]bool         // keys present during the whole call so far
	n        int
}

type frame struct {
	pc         int
	op         *Op
	cbSeen     int
	expectCb   bool // once.do: f must run exactly once
	noCb       bool // once.do on a done Once: f must not run
	contend    bool // operation must panic (would block in package sync) and leave the object unchanged
	newID      *int // pool.get: value returned by New
	rt         *rangeTrack
	cbPanicked bool // the user callback panicked: the panic must propagate to the caller of this operation
	adjacent   bool // the return record directly follows the invoke record
	invIdx     int
}

type value struct {
	kind string // "n" nil, "i" int, "s" string
	i    int
	s    string
}

type model struct {
	mu     [2]bool
	rwW    [2]bool
	rwR    [2]int
	wg     [2]int
	onceDo [2]bool
	onceDn [2]bool
	maps   [2]map[int]int
	pools  [2]map[int]int
	i32    [2]int32
	i64    [2]uint64
	u32    [2]uint32
	u64    [2]uint64
	uptr   [2]uint32
	unp    [2]int
	ti32   [2]int32
	ti64   [2]uint64
	tu32   [2]uint32
	tu64   [2]uint64
	tuptr  [2]uint32
	tbool  [2]bool
	tptr   [2]int
	tval   [2]value
	ranges []*rangeTrack
	hasNew [2]bool
	Probes map[string]int
}

type Verdict struct {
	Class, Message string
}

func argInt(op *Op, i int) int64 {
	if i >= len(op.A) {
		return 0
	}
	switch x := op.A[i].(type) {
	case float64:
		return int64(x)
	case int:
		return int64(x)
	case int64:
		return x
	}
	return 0
}
func argBool(op *Op, i int) bool {
	if i >= len(op.A) {
		return false
	}
	b, _ := op.A[i].(bool)
	return b
}
func arg64(op *Op, i int) uint64 {
	if i >= len(op.A) {
		return 0
	}
	var hi, lo int64
	switch p := op.A[i].(type) {
	case []any:
		if len(p) == 2 {
			hi, lo = toI64(p[0]), toI64(p[1])
		}
	case []int64:
		hi, lo = p[0], p[1]
	}
	return uint64(uint32(hi))<<32 | uint64(uint32(lo))
}
func toI64(x any) int64 {
	switch v := x.(type) {
	case float64:
		return int64(v)
	case int:
		return int64(v)
	case int64:
		return v
	}
	return 0
}
func argVal(op *Op, i int) value {
	if i >= len(op.A) {
		return value{kind: "n"}
	}
	p, ok := op.A[i].([]any)
	if !ok || len(p) == 0 {
		return value{kind: "n"}
	}
	k, _ := p[0].(string)
	switch k {
	case "i":
		return value{kind: "i", i: int(toI64(p[1]))}
	case "s":
		s, _ := p[1].(string)
		return value{kind: "s", s: s}
	}
	return value{kind: "n"}
}
func resVal(r *rawRes) (value, bool) {
	if len(r.X) == 0 {
		return value{}, false
	}
	k, _ := r.X[0].(string)
	switch k {
	case "n":
		return value{kind: "n"}, true
	case "i":
		if len(r.X) < 2 {
			return value{}, false
		}
		return value{kind: "i", i: int(toI64(r.X[1]))}, true
	case "s":
		if len(r.X) < 2 {
			return value{}, false
		}
		s, _ := r.X[1].(string)
		return value{kind: "s", s: s}, true
	}
	return value{}, false
}

// Check steps the history through the reference state machines.
func Check(sc *Scenario, res *simpool.Result) (*Verdict, map[string]int) {
	m := &model{Probes: map[string]int{}}
	for i := range m.maps {
		m.maps[i] = map[int]int{}
		m.pools[i] = map[int]int{}
		m.unp[i] = -1
		m.tptr[i] = -1
		m.tval[i] = value{kind: "n"}
		m.hasNew[i] = sc.PoolNew[i] != nil
	}
	stacks := make([][]*frame, len(sc.Gs))
	fail := func(class, f string, a ...any) (*Verdict, map[string]int) {
		return &Verdict{Class: class, Message: fmt.Sprintf(f, a...)}, m.Probes
	}
	if res.End != "drained" {
		return fail("abnormal-end", "run ended with %q (output: %s)", res.End, strings.Join(res.Out, " / "))
	}
	exit := false
	for hi, h := range res.Hist {
		if len(h.A) < 3 {
			return fail("malformed-history", "short record")
		}
		var g, pc int
		var ph string
		if json.Unmarshal(h.A[0], &g) != nil || json.Unmarshal(h.A[1], &pc) != nil || json.Unmarshal(h.A[2], &ph) != nil {
			return fail("malformed-history", "unparsable record")
		}
		var raw json.RawMessage
		if len(h.A) > 3 {
			raw = h.A[3]
		}
		if ph == "exit" {
			exit = true
			continue
		}
		if ph == "done" {
			if len(stacks[g]) != 0 {
				return fail("malformed-history", "g%d done with operations in progress", g)
			}
			continue
		}
		if g < 0 || g >= len(stacks) {
			return fail("malformed-history", "goroutine %d out of range", g)
		}
		switch ph {
		case "inv":
			op, err := sc.lookup(g, pc)
			if err != nil {
				return fail("malformed-history", "%v", err)
			}
			fr := &frame{pc: pc, op: op, invIdx: hi}
			stacks[g] = append(stacks[g], fr)
			m.begin(g, fr)
		case "cb":
			if len(stacks[g]) == 0 {
				return fail("malformed-history", "g%d: callback outside an operation", g)
			}
			fr := stacks[g][len(stacks[g])-1]
			if fr.pc != pc {
				return fail("malformed-history", "g%d: callback of op %d while op %d is innermost", g, pc, fr.pc)
			}
			fr.adjacent = hi == fr.invIdx+1
			if v := m.callback(g, fr, raw); v != nil {
				return v, m.Probes
			}
		case "cbend":
		case "ret":
			// a callback that panicked ("boom") aborts the nested operations above the one that returns
			for len(stacks[g]) > 0 && stacks[g][len(stacks[g])-1].pc != pc && stacks[g][len(stacks[g])-1].op.K == "boom" {
				aborted := stacks[g][len(stacks[g])-1]
				stacks[g] = stacks[g][:len(stacks[g])-1]
				if len(stacks[g]) > 0 {
					stacks[g][len(stacks[g])-1].cbPanicked = true
				}
				_ = aborted
			}
			if len(stacks[g]) == 0 || stacks[g][len(stacks[g])-1].pc != pc {
				return fail("malformed-history", "g%d: ret of op %d without matching inv", g, pc)
			}
			fr := stacks[g][len(stacks[g])-1]
			stacks[g] = stacks[g][:len(stacks[g])-1]
			fr.adjacent = hi == fr.invIdx+1
			var r rawRes
			if len(raw) > 0 && string(raw) != "null" {
				if err := json.Unmarshal(raw, &r); err != nil {
					return fail("malformed-history", "unparsable result %s", raw)
				}
			}
			if v := m.finish(g, fr, &r, raw); v != nil {
				return v, m.Probes
			}
		default:
			return fail("malformed-history", "unknown phase %q", ph)
		}
	}
	if !exit {
		return fail("abnormal-end", "event loop drained but main never reached its end (some goroutine never finished)")
	}
	return nil, m.Probes
}

func isCallbackOp(k string) bool {
	return k == "once.do" || k == "map.range" || k == "pool.get" || k == "yield"
}

// begin applies what happens at the invocation instant of operations that may run user callbacks.
func (m *model) begin(g int, fr *frame) {
	op := fr.op
	switch op.K {
	case "once.do":
		switch {
		case m.onceDn[op.O]:
			fr.noCb = true
		case m.onceDo[op.O]:
			fr.contend = true
			m.Probes["once_do_during_do"]++
		default:
			m.onceDo[op.O] = true
			fr.expectCb = true
		}
	case "map.range":
		rt := &rangeTrack{g: g, pc: fr.pc, o: op.O, visited: map[int]bool{}, possible: map[int]map[int]bool{}, always: map[int]bool{}}
		for k, v := range m.maps[op.O] {
			rt.possible[k] = map[int]bool{v: true}
			rt.always[k] = true
		}
		fr.rt = rt
		m.ranges = append(m.ranges, rt)
	}
}

func (m *model) mapStore(o, k, v int) {
	m.maps[o][k] = v
	for _, rt := range m.ranges {
		if rt.o == o {
			if rt.possible[k] == nil {
				rt.possible[k] = map[int]bool{}
			}
			rt.possible[k][v] = true
			m.Probes["map_store_during_range"]++
		}
	}
}
func (m *model) mapDelete(o, k int) {
	delete(m.maps[o], k)
	for _, rt := range m.ranges {
		if rt.o == o {
			delete(rt.always, k)
			m.Probes["map_delete_during_range"]++
		}
	}
}

func (m *model) callback(g int, fr *frame, raw json.RawMessage) *Verdict {
	fr.cbSeen++
	switch fr.op.K {
	case "once.do":
		if !fr.expectCb || fr.cbSeen > 1 {
			return &Verdict{"once", fmt.Sprintf("g%d op %d: Once.Do ran f although it must not (already done, in progress elsewhere, or second run)", g, fr.pc)}
		}
	case "map.range":
		var kv []int
		if json.Unmarshal(raw, &kv) != nil || len(kv) != 2 {
			return &Verdict{"malformed-history", "bad range visit record"}
		}
		rt := fr.rt
		if rt.visited[kv[0]] {
			return &Verdict{"map-range", fmt.Sprintf("g%d op %d: Range visited key %d twice", g, fr.pc, kv[0])}
		}
		if !rt.possible[kv[0]][kv[1]] {
			return &Verdict{"map-range", fmt.Sprintf("g%d op %d: Range visited (%d,%d), a mapping the key never held during the call", g, fr.pc, kv[0], kv[1])}
		}
		rt.visited[kv[0]] = true
		rt.n++
	case "pool.get":
		var id int
		if json.Unmarshal(raw, &id) != nil {
			return &Verdict{"malformed-history", "bad pool New record"}
		}
		if !m.hasNew[fr.op.O] {
			return &Verdict{"pool", fmt.Sprintf("g%d op %d: New called on a pool without New", g, fr.pc)}
		}
		if len(m.pools[fr.op.O]) != 0 && fr.adjacent {
			// legal for sync.Pool (items may be dropped at any time); counted, not judged
			m.Probes["pool_new_with_items"]++
		}
		fr.newID = &id
		m.Probes["pool_new_called"]++
	default:
		return &Verdict{"malformed-history", fmt.Sprintf("callback record for op kind %s", fr.op.K)}
	}
	return nil
}

func (m *model) finish(g int, fr *frame, r *rawRes, raw json.RawMessage) *Verdict {
	op := fr.op
	o := op.O
	bad := func(class, f string, a ...any) *Verdict {
		return &Verdict{class, fmt.Sprintf("g%d op %d (%s): ", g, fr.pc, op.K) + fmt.Sprintf(f, a...) + fmt.Sprintf(" [recorded result %s]", string(raw))}
	}
	if !isCallbackOp(op.K) && !fr.adjacent {
		return bad("not-atomic", "the operation was suspended: other events were recorded between its invocation and its return (it must be atomic / panic instead of blocking)")
	}
	wantPanic := func(why string) *Verdict {
		if r.Panic == nil {
			return bad("contention", "must panic instead of blocking (%s) but returned normally", why)
		}
		m.Probes["contention_panics"]++
		return nil
	}
	noPanic := func() *Verdict {
		if r.Panic != nil {
			return bad("unexpected-panic", "panicked with %q although the operation is legal and uncontended", *r.Panic)
		}
		return nil
	}
	needV := func() (int64, *Verdict) {
		if v := noPanic(); v != nil {
			return 0, v
		}
		if r.V == nil {
			return 0, bad("malformed-history", "result lacks v")
		}
		return *r.V, nil
	}
	needW := func() (uint64, *Verdict) {
		if v := noPanic(); v != nil {
			return 0, v
		}
		if len(r.W) != 2 {
			return 0, bad("malformed-history", "result lacks w")
		}
		return uint64(uint32(r.W[0]))<<32 | uint64(uint32(r.W[1])), nil
	}
	needOk := func() (bool, *Verdict) {
		if v := noPanic(); v != nil {
			return false, v
		}
		if r.Ok == nil {
			return false, bad("malformed-history", "result lacks ok")
		}
		return *r.Ok, nil
	}
	eqV := func(want int64) *Verdict {
		got, v := needV()
		if v != nil {
			return v
		}
		if got != want {
			return bad("wrong-value", "returned %d, reference says %d", got, want)
		}
		return nil
	}
	eqW := func(want uint64) *Verdict {
		got, v := needW()
		if v != nil {
			return v
		}
		if got != want {
			return bad("wrong-value", "returned %#x, reference says %#x", got, want)
		}
		return nil
	}
	eqOk := func(want bool) *Verdict {
		got, v := needOk()
		if v != nil {
			return v
		}
		if got != want {
			return bad("wrong-value", "returned %v, reference says %v", got, want)
		}
		return nil
	}
	switch op.K {
	case "yield":
		return noPanic()
	// ---- nosync.Mutex
	case "mu.lock":
		if m.mu[o] {
			return wantPanic("Lock of a locked Mutex")
		}
		m.mu[o] = true
		return noPanic()
	case "mu.unlock":
		if !m.mu[o] {
			return wantPanic("Unlock of an unlocked Mutex is a fatal error in sync")
		}
		m.mu[o] = false
		return noPanic()
	// ---- nosync.RWMutex
	case "rw.lock":
		if m.rwW[o] || m.rwR[o] > 0 {
			return wantPanic("Lock of an RWMutex held by a writer or by readers")
		}
		m.rwW[o] = true
		return noPanic()
	case "rw.unlock":
		if !m.rwW[o] {
			return wantPanic("Unlock of an RWMutex that is not write-locked is a fatal error in sync")
		}
		m.rwW[o] = false
		return noPanic()
	case "rw.rlock":
		if m.rwW[o] {
			return wantPanic("RLock of a write-locked RWMutex")
		}
		m.rwR[o]++
		return noPanic()
	case "rw.runlock":
		if m.rwR[o] == 0 {
			return wantPanic("RUnlock without RLock is a fatal error in sync")
		}
		m.rwR[o]--
		return noPanic()
	// ---- nosync.WaitGroup
	case "wg.add", "wg.done":
		// sync.WaitGroup.Add adds first and panics afterwards: a counter driven below zero stays there after the
		// (recovered) panic, and later operations of the same WaitGroup see it.
		d := -1
		if op.K == "wg.add" {
			d = int(argInt(op, 0))
		}
		m.wg[o] += d
		if m.wg[o] < 0 {
			m.Probes["wg_negative_counter"]++
			return wantPanic("negative WaitGroup counter")
		}
		return noPanic()
	case "wg.wait":
		if m.wg[o] != 0 {
			if m.wg[o] < 0 {
				m.Probes["wg_wait_after_negative"]++
			}
			return wantPanic("Wait with a non-zero counter")
		}
		return noPanic()
	// ---- nosync.Once
	case "once.do":
		switch {
		case fr.contend:
			return wantPanic("Do while another Do of the same Once is running f")
		case fr.noCb:
			if fr.cbSeen != 0 {
				return bad("once", "f ran on a Once that was already done")
			}
			return noPanic()
		default:
			if fr.cbSeen != 1 {
				return bad("once", "f ran %d times, want exactly once", fr.cbSeen)
			}
			// "If f panics, Do considers it to have returned; future calls of Do return without calling f."
			m.onceDo[o] = false
			m.onceDn[o] = true
			if fr.cbPanicked {
				m.Probes["once_f_panicked"]++
				if r.Panic == nil {
					return bad("once", "f panicked but Do returned normally")
				}
				return nil
			}
			return noPanic()
		}
	// ---- nosync.Map
	case "map.load":
		ok, v := needOk()
		if v != nil {
			return v
		}
		want, has := m.maps[o][int(argInt(op, 0))]
		if ok != has {
			return bad("wrong-value", "ok=%v, reference says %v", ok, has)
		}
		if has {
			if r.V == nil || int(*r.V) != want {
				return bad("wrong-value", "value differs, reference says %d", want)
			}
		}
		return nil
	case "map.store":
		m.mapStore(o, int(argInt(op, 0)), int(argInt(op, 1)))
		return noPanic()
	case "map.loadorstore":
		k, nv := int(argInt(op, 0)), int(argInt(op, 1))
		cur, has := m.maps[o][k]
		if !has {
			m.mapStore(o, k, nv)
			cur = nv
		}
		if v := eqOk(has); v != nil {
			return v
		}
		if r.V == nil || int(*r.V) != cur {
			return bad("wrong-value", "actual differs, reference says %d", cur)
		}
		return nil
	case "map.delete":
		m.mapDelete(o, int(argInt(op, 0)))
		return noPanic()
	case "map.range":
		rt := fr.rt
		for i, x := range m.ranges {
			if x == rt {
				m.ranges = append(m.ranges[:i], m.ranges[i+1:]...)
				break
			}
		}
		if fr.cbPanicked {
			m.Probes["range_f_panicked"]++
			if r.Panic == nil {
				return bad("map-range", "f panicked but Range returned normally")
			}
			return nil
		}
		if v := noPanic(); v != nil {
			return v
		}
		if r.N == nil || *r.N != rt.n {
			return bad("malformed-history", "visit count mismatch")
		}
		stopped := op.Stop > 0 && rt.n >= op.Stop
		if op.Stop > 0 && rt.n > op.Stop {
			return bad("map-range", "Range continued after f returned false")
		}
		if !stopped {
			var missing []int
			for k := range rt.always {
				if !rt.visited[k] {
					missing = append(missing, k)
				}
			}
			sort.Ints(missing)
			if len(missing) > 0 {
				return bad("map-range", "keys %v were present during the whole call but never visited", missing)
			}
		}
		return nil
	// ---- nosync.Pool
	case "pool.put":
		if v := noPanic(); v != nil {
			return v
		}
		m.pools[o][int(argInt(op, 0))]++
		return nil
	case "pool.putnil":
		return noPanic()
	case "pool.get":
		if fr.cbPanicked {
			m.Probes["pool_new_panicked"]++
			if r.Panic == nil {
				return bad("pool", "New panicked but Get returned normally")
			}
			return nil
		}
		if v := noPanic(); v != nil {
			return v
		}
		if r.Nil != nil && *r.Nil {
			if len(m.pools[o]) != 0 {
				// sync.Pool may drop items at any time, so nil/New with a non-empty pool is legal for sync;
				// nosync promises no more than sync here. Accepted, counted.
				m.Probes["pool_get_nil_with_items"]++
			}
			if m.hasNew[o] && fr.newID == nil {
				return bad("pool", "Get returned nil although the pool has a New function")
			}
			if fr.newID != nil {
				return bad("pool", "Get returned nil although New was called and returned %d", *fr.newID)
			}
			return nil
		}
		if r.V == nil {
			return bad("malformed-history", "result lacks v")
		}
		id := int(*r.V)
		if fr.newID != nil {
			if id != *fr.newID {
				return bad("pool", "New returned %d but Get returned %d", *fr.newID, id)
			}
			return nil
		}
		if m.pools[o][id] == 0 {
			return bad("pool", "Get returned %d, which is not in the pool (never put, or already handed out)", id)
		}
		m.pools[o][id]--
		if m.pools[o][id] == 0 {
			delete(m.pools[o], id)
		}
		return nil
	}
	// ---- sync/atomic
	name := strings.TrimPrefix(op.K, "t.")
	typed := strings.HasPrefix(op.K, "t.")
	switch name {
	case "add32", "load32", "store32", "swap32", "cas32":
		p := &m.i32[o]
		if typed {
			p = &m.ti32[o]
		}
		a, b := int32(argInt(op, 0)), int32(argInt(op, 1))
		switch name {
		case "add32":
			*p += a
			return eqV(int64(*p))
		case "load32":
			return eqV(int64(*p))
		case "store32":
			*p = a
			return noPanic()
		case "swap32":
			old := *p
			*p = a
			return eqV(int64(old))
		default:
			ok := *p == a
			if ok {
				*p = b
			}
			return eqOk(ok)
		}
	case "addu32", "loadu32", "storeu32", "swapu32", "casu32", "adduptr", "loaduptr", "storeuptr", "swapuptr", "casuptr":
		var p *uint32
		switch {
		case strings.HasSuffix(name, "uptr") && typed:
			p = &m.tuptr[o]
		case strings.HasSuffix(name, "uptr"):
			p = &m.uptr[o]
		case typed:
			p = &m.tu32[o]
		default:
			p = &m.u32[o]
		}
		a, b := uint32(argInt(op, 0)), uint32(argInt(op, 1))
		switch {
		case strings.HasPrefix(name, "add"):
			*p += a
			return eqV(int64(*p))
		case strings.HasPrefix(name, "load"):
			return eqV(int64(*p))
		case strings.HasPrefix(name, "store"):
			*p = a
			return noPanic()
		case strings.HasPrefix(name, "swap"):
			old := *p
			*p = a
			return eqV(int64(old))
		default:
			ok := *p == a
			if ok {
				*p = b
			}
			return eqOk(ok)
		}
	case "add64", "load64", "store64", "swap64", "cas64", "addu64", "loadu64", "storeu64", "swapu64", "casu64":
		var p *uint64 // signed 64-bit variables are kept as bit patterns: add/swap/cas are bit-identical
		unsigned := strings.Contains(name, "u64")
		switch {
		case unsigned && typed:
			p = &m.tu64[o]
		case unsigned:
			p = &m.u64[o]
		case typed:
			p = &m.ti64[o]
		default:
			p = &m.i64[o]
		}
		a, b := arg64(op, 0), arg64(op, 1)
		switch {
		case strings.HasPrefix(name, "add"):
			*p += a
			return eqW(*p)
		case strings.HasPrefix(name, "load"):
			return eqW(*p)
		case strings.HasPrefix(name, "store"):
			*p = a
			return noPanic()
		case strings.HasPrefix(name, "swap"):
			old := *p
			*p = a
			return eqW(old)
		default:
			ok := *p == a
			if ok {
				*p = b
			}
			return eqOk(ok)
		}
	case "loadp", "storep", "swapp", "casp":
		p := &m.unp[o]
		if typed {
			p = &m.tptr[o]
		}
		a, b := int(argInt(op, 0)), int(argInt(op, 1))
		switch name {
		case "loadp":
			return eqV(int64(*p))
		case "storep":
			*p = a
			return noPanic()
		case "swapp":
			old := *p
			*p = a
			return eqV(int64(old))
		default:
			ok := *p == a
			if ok {
				*p = b
			}
			return eqOk(ok)
		}
	case "loadb", "storeb", "swapb", "casb":
		p := &m.tbool[o]
		a, b := argBool(op, 0), argBool(op, 1)
		switch name {
		case "loadb":
			return eqOk(*p)
		case "storeb":
			*p = a
			return noPanic()
		case "swapb":
			old := *p
			*p = a
			return eqOk(old)
		default:
			ok := *p == a
			if ok {
				*p = b
			}
			return eqOk(ok)
		}
	}
	// ---- atomic.Value (sync/atomic documentation: Store/Swap/CompareAndSwap of nil panic; all stored
	// values must have the same concrete type, else panic; CompareAndSwap panics if old and new differ in type
	// (old non-nil); Load returns nil before the first Store)
	if strings.HasPrefix(op.K, "v.") {
		cur := &m.tval[o]
		eqX := func(want value) *Verdict {
			if v := noPanic(); v != nil {
				return v
			}
			got, ok := resVal(r)
			if !ok {
				return bad("malformed-history", "result lacks x")
			}
			if got != want {
				return bad("wrong-value", "returned %+v, reference says %+v", got, want)
			}
			return nil
		}
		mustPanic := func(why string) *Verdict {
			if r.Panic == nil {
				return bad("missing-panic", "must panic (%s)", why)
			}
			m.Probes["value_misuse_panics"]++
			return nil
		}
		switch op.K {
		case "v.load":
			return eqX(*cur)
		case "v.store", "v.swap":
			nv := argVal(op, 0)
			if nv.kind == "n" {
				return mustPanic("nil value")
			}
			if cur.kind != "n" && cur.kind != nv.kind {
				return mustPanic("inconsistently typed value")
			}
			old := *cur
			*cur = nv
			if op.K == "v.swap" {
				return eqX(old)
			}
			return noPanic()
		case "v.cas":
			old, nv := argVal(op, 0), argVal(op, 1)
			if nv.kind == "n" {
				return mustPanic("nil new value")
			}
			if old.kind != "n" && old.kind != nv.kind {
				return mustPanic("old and new of different types")
			}
			if cur.kind == "n" {
				if old.kind != "n" {
					return eqOk(false)
				}
				*cur = nv
				return eqOk(true)
			}
			if cur.kind != nv.kind {
				return mustPanic("inconsistently typed value")
			}
			if *cur != old {
				return eqOk(false)
			}
			*cur = nv
			return eqOk(true)
		}
	}
	return bad("malformed-history", "unknown operation kind")
}
