package syncmodel

import (
	"verif/internal/rng"
)

type GenConfig struct {
	MaxG, MaxOps int
	Families     []string
	YieldRate    int // one yield op per YieldRate ops (roughly)
	Nested       bool
}

var families = []string{"mu", "rw", "wg", "once", "map", "pool", "a32", "a64", "au", "ptr", "bool", "value"}

func NewGenConfig(r *rng.R) GenConfig {
	c := GenConfig{MaxG: 2 + r.Intn(3), MaxOps: 3 + r.Intn(6), YieldRate: 2 + r.Intn(3), Nested: r.Chance(2, 3)}
	for _, f := range families {
		if r.Chance(1, 3) {
			c.Families = append(c.Families, f)
		}
	}
	if len(c.Families) == 0 {
		c.Families = []string{families[r.Intn(len(families))]}
	}
	return c
}

var b32 = []int64{0, 1, -1, 2, 7, 2147483647, -2147483648, 2147483646, 65536, -65536}
var bu32 = []int64{0, 1, 2, 7, 4294967295, 4294967294, 2147483648, 65536}
var b64 = [][2]int64{{0, 0}, {0, 1}, {0, 4294967295}, {1, 0}, {2147483647, 4294967295}, {2147483648, 0}, {4294967295, 4294967295}, {4294967295, 4294967294}, {0, 2147483648}, {123, 456}}

func pick[T any](r *rng.R, l []T) T { return l[r.Intn(len(l))] }

func p64(r *rng.R) []any { v := pick(r, b64); return []any{v[0], v[1]} }

func anyVal(r *rng.R) []any {
	switch r.Intn(5) {
	case 0:
		return []any{"n"}
	case 1, 2:
		return []any{"i", r.Intn(3)}
	default:
		return []any{"s", pick(r, []string{"a", "b"})}
	}
}

func mk(k string, o int, a ...any) Op {
	if a == nil {
		a = []any{}
	}
	return Op{K: k, O: o, A: a, Cb: []Op{}}
}

func (c *GenConfig) genOps(r *rng.R, n int, depth int, uniq *int) []Op {
	ops := []Op{}
	for len(ops) < n {
		if r.Chance(1, c.YieldRate) {
			ops = append(ops, mk("yield", 0))
			continue
		}
		fam := pick(r, c.Families)
		o := r.Intn(2)
		next := func() int { *uniq++; return *uniq }
		nested := func() []Op {
			if depth > 0 || !c.Nested {
				return []Op{}
			}
			return c.genOps(r, 1+r.Intn(3), depth+1, uniq)
		}
		switch fam {
		case "mu":
			if r.Chance(1, 2) {
				// a critical section with a suspension point inside
				ops = append(ops, mk("mu.lock", o), mk("yield", 0), mk("mu.unlock", o))
			} else {
				ops = append(ops, mk(pick(r, []string{"mu.lock", "mu.unlock"}), o))
			}
		case "rw":
			switch r.Intn(4) {
			case 0:
				ops = append(ops, mk("rw.rlock", o), mk("yield", 0), mk("rw.runlock", o))
			case 1:
				ops = append(ops, mk("rw.lock", o), mk("yield", 0), mk("rw.unlock", o))
			default:
				ops = append(ops, mk(pick(r, []string{"rw.lock", "rw.unlock", "rw.rlock", "rw.runlock"}), o))
			}
		case "wg":
			switch r.Intn(5) {
			case 0:
				ops = append(ops, mk("wg.add", o, 1+r.Intn(2)))
			case 3:
				ops = append(ops, mk("wg.add", o, -1-r.Intn(3)))
			case 1:
				ops = append(ops, mk("wg.add", o, 1), mk("yield", 0), mk("wg.done", o))
			case 2:
				ops = append(ops, mk("wg.wait", o))
			default:
				ops = append(ops, mk("wg.done", o))
			}
		case "once":
			op := mk("once.do", o)
			op.Cb = nested()
			if r.Chance(1, 2) {
				op.Cb = append([]Op{mk("yield", 0)}, op.Cb...)
			}
			if depth == 0 && r.Chance(1, 5) {
				op.Cb = append(op.Cb, mk("boom", 0)) // f panics (possibly after suspending)
			}
			ops = append(ops, op)
		case "map":
			k := r.Intn(4)
			switch r.Intn(6) {
			case 0:
				ops = append(ops, mk("map.load", o, k))
			case 1, 2:
				ops = append(ops, mk("map.store", o, k, next()))
			case 3:
				ops = append(ops, mk("map.loadorstore", o, k, next()))
			case 4:
				ops = append(ops, mk("map.delete", o, k))
			default:
				op := mk("map.range", o)
				op.Cb = nested()
				if depth == 0 && c.Nested && r.Chance(1, 5) {
					// churn: every callback deletes all keys and stores them again (new entries, which Range may
					// visit or skip - but "no key will be visited more than once")
					for q := 0; q < 3; q++ {
						ops = append(ops, mk("map.store", o, q, next()))
					}
					op.Cb = []Op{}
					for q := 0; q < 4; q++ {
						op.Cb = append(op.Cb, mk("map.delete", o, q))
					}
					for q := 0; q < 4; q++ {
						op.Cb = append(op.Cb, mk("map.store", o, q, next()))
					}
				}
				if r.Chance(1, 2) {
					op.Cb = append([]Op{mk("yield", 0)}, op.Cb...)
				}
				if r.Chance(1, 4) {
					op.Stop = 1 + r.Intn(2)
				}
				if depth == 0 && r.Chance(1, 8) {
					op.Cb = append(op.Cb, mk("boom", 0))
				}
				ops = append(ops, op)
			}
		case "pool":
			switch r.Intn(5) {
			case 0, 1:
				ops = append(ops, mk("pool.put", o, next()))
			case 2:
				ops = append(ops, mk("pool.putnil", o))
			default:
				ops = append(ops, mk("pool.get", o))
			}
		case "a32":
			pre := pick(r, []string{"", "t."})
			switch r.Intn(5) {
			case 0:
				ops = append(ops, mk(pre+"add32", o, pick(r, b32)))
			case 1:
				ops = append(ops, mk(pre+"load32", o))
			case 2:
				ops = append(ops, mk(pre+"store32", o, pick(r, b32)))
			case 3:
				ops = append(ops, mk(pre+"swap32", o, pick(r, b32)))
			default:
				ops = append(ops, mk(pre+"cas32", o, pick(r, b32), pick(r, b32)))
			}
		case "au":
			pre := pick(r, []string{"", "t."})
			suf := pick(r, []string{"u32", "uptr"})
			switch r.Intn(5) {
			case 0:
				ops = append(ops, mk(pre+"add"+suf, o, pick(r, bu32)))
			case 1:
				ops = append(ops, mk(pre+"load"+suf, o))
			case 2:
				ops = append(ops, mk(pre+"store"+suf, o, pick(r, bu32)))
			case 3:
				ops = append(ops, mk(pre+"swap"+suf, o, pick(r, bu32)))
			default:
				ops = append(ops, mk(pre+"cas"+suf, o, pick(r, bu32), pick(r, bu32)))
			}
		case "a64":
			pre := pick(r, []string{"", "t."})
			suf := pick(r, []string{"64", "u64"})
			switch r.Intn(5) {
			case 0:
				ops = append(ops, mk(pre+"add"+suf, o, p64(r)))
			case 1:
				ops = append(ops, mk(pre+"load"+suf, o))
			case 2:
				ops = append(ops, mk(pre+"store"+suf, o, p64(r)))
			case 3:
				ops = append(ops, mk(pre+"swap"+suf, o, p64(r)))
			default:
				ops = append(ops, mk(pre+"cas"+suf, o, p64(r), p64(r)))
			}
		case "ptr":
			// typed atomic.Pointer[T] only: the function forms on unsafe.Pointer rely on unsafe.Pointer identity,
			// which GopherJS does not support (outside this property)
			pre := "t."
			switch r.Intn(4) {
			case 0:
				ops = append(ops, mk(pre+"loadp", o))
			case 1:
				ops = append(ops, mk(pre+"storep", o, r.Intn(5)-1))
			case 2:
				ops = append(ops, mk(pre+"swapp", o, r.Intn(5)-1))
			default:
				ops = append(ops, mk(pre+"casp", o, r.Intn(5)-1, r.Intn(5)-1))
			}
		case "bool":
			switch r.Intn(4) {
			case 0:
				ops = append(ops, mk("t.loadb", o))
			case 1:
				ops = append(ops, mk("t.storeb", o, r.Bool()))
			case 2:
				ops = append(ops, mk("t.swapb", o, r.Bool()))
			default:
				ops = append(ops, mk("t.casb", o, r.Bool(), r.Bool()))
			}
		case "value":
			switch r.Intn(4) {
			case 0:
				ops = append(ops, mk("v.load", o))
			case 1:
				ops = append(ops, mk("v.store", o, anyVal(r)))
			case 2:
				ops = append(ops, mk("v.swap", o, anyVal(r)))
			default:
				ops = append(ops, mk("v.cas", o, anyVal(r), anyVal(r)))
			}
		}
	}
	return ops
}

func Generate(r *rng.R, c *GenConfig) *Scenario {
	sc := &Scenario{}
	ng := 2 + r.Intn(c.MaxG-1)
	uniq := 0
	for g := 0; g < ng; g++ {
		sc.Gs = append(sc.Gs, c.genOps(r, 2+r.Intn(c.MaxOps), 0, &uniq))
	}
	for i := 0; i < 2; i++ {
		if r.Chance(1, 2) {
			ops := []Op{}
			if r.Chance(1, 2) {
				ops = append(ops, mk("yield", 0))
			}
			if c.Nested && r.Chance(1, 2) {
				// no Pool.Get inside New: that recursion does not terminate in package sync either
				for _, o := range c.genOps(r, 1+r.Intn(2), 1, &uniq) {
					if o.K != "pool.get" {
						ops = append(ops, o)
					}
				}
			}
			sc.PoolNew[i] = ops
		}
	}
	sc.Normalise()
	return sc
}

func clone(sc *Scenario) *Scenario {
	var cp func(ops []Op) []Op
	cp = func(ops []Op) []Op {
		if ops == nil {
			return nil
		}
		out := make([]Op, len(ops))
		for i, o := range ops {
			out[i] = o
			out[i].A = append([]any{}, o.A...)
			out[i].Cb = cp(o.Cb)
		}
		return out
	}
	n := &Scenario{}
	for _, g := range sc.Gs {
		n.Gs = append(n.Gs, cp(g))
	}
	for i := range sc.PoolNew {
		n.PoolNew[i] = cp(sc.PoolNew[i])
	}
	return n
}

// Candidates returns smaller variants for minimisation.
func Candidates(sc *Scenario) []*Scenario {
	var out []*Scenario
	for g := len(sc.Gs) - 1; g >= 1; g-- {
		n := clone(sc)
		n.Gs = append(n.Gs[:g], n.Gs[g+1:]...)
		out = append(out, n)
	}
	for g := range sc.Gs {
		for i := range sc.Gs[g] {
			n := clone(sc)
			n.Gs[g] = append(n.Gs[g][:i], n.Gs[g][i+1:]...)
			out = append(out, n)
		}
	}
	for g := range sc.Gs {
		for i := range sc.Gs[g] {
			for j := range sc.Gs[g][i].Cb {
				n := clone(sc)
				cb := n.Gs[g][i].Cb
				n.Gs[g][i].Cb = append(cb[:j], cb[j+1:]...)
				out = append(out, n)
			}
		}
	}
	for p := range sc.PoolNew {
		for j := range sc.PoolNew[p] {
			n := clone(sc)
			l := n.PoolNew[p]
			n.PoolNew[p] = append(l[:j], l[j+1:]...)
			out = append(out, n)
		}
	}
	for _, n := range out {
		n.Normalise()
	}
	return out
}

// Features for evidence.
func (sc *Scenario) Features() []string {
	seen := map[string]bool{}
	var walk func(ops []Op, nested bool)
	walk = func(ops []Op, nested bool) {
		for _, o := range ops {
			seen["op:"+o.K] = true
			if nested {
				seen["nested_op"] = true
			}
			walk(o.Cb, true)
		}
	}
	for _, g := range sc.Gs {
		walk(g, false)
	}
	for _, p := range sc.PoolNew {
		walk(p, true)
	}
	var l []string
	for k := range seen {
		l = append(l, k)
	}
	return l
}
