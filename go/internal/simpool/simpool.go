// Package simpool runs simnode workers (one OS process each) and hands them jobs.
package simpool

import (
	"bufio"
	"encoding/json"
	"fmt"
	"io"
	"os"
	"os/exec"
	"sync"
	"time"
)

type Run struct {
	Seed      string          `json:"seed,omitempty"`
	Tape      []int           `json:"tape"` // nil => generate from Seed
	Scenario  json.RawMessage `json:"scenario,omitempty"`
	Cfg       map[string]any  `json:"cfg,omitempty"`
	Callbacks []CallbackSpec  `json:"callbacks,omitempty"`
}

type CallbackSpec struct {
	Fn     string `json:"fn"`
	Args   []any  `json:"args"`
	Shared string `json:"shared,omitempty"` // name of a JavaScript object shared by (and mutated between) calls
}

type Job struct {
	ID        int             `json:"id"`
	Script    string          `json:"script"`
	Scenario  json.RawMessage `json:"scenario,omitempty"`
	Cfg       map[string]any  `json:"cfg,omitempty"`
	Callbacks []CallbackSpec  `json:"callbacks,omitempty"`
	CbOrdered bool            `json:"cbOrdered,omitempty"`
	Runs      []Run           `json:"runs"`
	WantHist  *bool           `json:"wantHist,omitempty"`
	WantTape  *bool           `json:"wantTape,omitempty"`
	WantKinds bool            `json:"wantKinds,omitempty"`
	WantStack bool            `json:"wantStack,omitempty"`
	Evict     bool            `json:"evict,omitempty"`
}

type HistRec struct {
	N int               `json:"n"`
	T int               `json:"t"`
	A []json.RawMessage `json:"a"`
}

type CbResult struct {
	N      int             `json:"n"`
	N2     int             `json:"n2"`
	Cb     int             `json:"cb"`
	Fn     string          `json:"fn"`
	Ret    json.RawMessage `json:"ret,omitempty"`
	Thrown *string         `json:"thrown,omitempty"`
}

type Result struct {
	End     string         `json:"end"`
	Out     []string       `json:"out"`
	Turns   int            `json:"turns"`
	SimMs   int            `json:"simMs"`
	Fired   map[string]int `json:"fired"`
	TapeLen int            `json:"tapeLen"`
	Hist    []HistRec      `json:"hist"`
	Tape    []int          `json:"tape"`
	Kinds   []string       `json:"kinds,omitempty"`
	Cbs     []CbResult     `json:"cbs,omitempty"`
	Sched   string         `json:"sched"`
}

type JobResult struct {
	ID      int      `json:"id"`
	Results []Result `json:"results"`
	Error   string   `json:"error,omitempty"`
}

type worker struct {
	cmd *exec.Cmd
	in  io.WriteCloser
	out *bufio.Reader
}

type Pool struct {
	simPath string
	free    chan *worker
	all     []*worker
	mu      sync.Mutex
	Timeout time.Duration
}

func New(simPath string, n int) (*Pool, error) {
	p := &Pool{simPath: simPath, free: make(chan *worker, n), Timeout: 120 * time.Second}
	for i := 0; i < n; i++ {
		w, err := p.spawn()
		if err != nil {
			p.Close()
			return nil, err
		}
		p.all = append(p.all, w)
		p.free <- w
	}
	return p, nil
}

func (p *Pool) spawn() (*worker, error) {
	cmd := exec.Command("node", "--max-old-space-size=2048", p.simPath, "--worker")
	cmd.Stderr = os.Stderr
	in, err := cmd.StdinPipe()
	if err != nil {
		return nil, err
	}
	out, err := cmd.StdoutPipe()
	if err != nil {
		return nil, err
	}
	if err := cmd.Start(); err != nil {
		return nil, err
	}
	return &worker{cmd: cmd, in: in, out: bufio.NewReaderSize(out, 1<<20)}, nil
}

// ErrInfra marks failures of the harness itself (exit code 2), never property violations.
type ErrInfra struct{ Msg string }

func (e *ErrInfra) Error() string { return "infrastructure: " + e.Msg }

// Do runs a job on a free worker. A worker that does not answer within Timeout is killed and replaced,
// and the job is reported as an infrastructure error (watchdog), never as a violation.
func (p *Pool) Do(job *Job) (*JobResult, error) {
	w := <-p.free
	data, err := json.Marshal(job)
	if err != nil {
		p.free <- w
		return nil, err
	}
	type rd struct {
		line []byte
		err  error
	}
	ch := make(chan rd, 1)
	go func() {
		if _, err := w.in.Write(append(data, '\n')); err != nil {
			ch <- rd{nil, err}
			return
		}
		line, err := w.out.ReadBytes('\n')
		ch <- rd{line, err}
	}()
	select {
	case r := <-ch:
		if r.err != nil {
			p.replace(w)
			return nil, &ErrInfra{fmt.Sprintf("simnode worker died: %v", r.err)}
		}
		p.free <- w
		var jr JobResult
		if err := json.Unmarshal(r.line, &jr); err != nil {
			return nil, &ErrInfra{fmt.Sprintf("bad simnode answer: %v", err)}
		}
		if jr.Error != "" {
			return nil, &ErrInfra{"simnode: " + jr.Error}
		}
		return &jr, nil
	case <-time.After(p.Timeout):
		p.replace(w)
		return nil, &ErrInfra{fmt.Sprintf("watchdog: job %d did not finish within %v", job.ID, p.Timeout)}
	}
}

func (p *Pool) replace(w *worker) {
	w.cmd.Process.Kill()
	w.cmd.Wait()
	nw, err := p.spawn()
	if err == nil {
		p.mu.Lock()
		p.all = append(p.all, nw)
		p.mu.Unlock()
		p.free <- nw
	}
}

func (p *Pool) Close() {
	p.mu.Lock()
	defer p.mu.Unlock()
	for _, w := range p.all {
		w.in.Close()
		w.cmd.Process.Kill()
		w.cmd.Wait()
	}
	p.all = nil
}
