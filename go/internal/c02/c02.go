// Package c02 is the C02 check: suspending and resuming a goroutine is invisible. Each generated program is
// built in D form (yield atoms are plain functions: statically resolved callers compile to direct form) and
// in R form (atoms may suspend: the same callers compile to resumable form); R runs with the all-default tape
// (R0: resumable code, zero suspensions) and with seeded tapes (Rs). out(D) == out(R0) == out(Rs) must hold.
package c02

import (
	"fmt"
	"strings"
	"time"

	"verif/internal/evidence"
	"verif/internal/known"
	"verif/internal/progeng"
	"verif/internal/rng"
	"verif/internal/seqgen"
	"verif/internal/simpool"
)

func firstDiff(a, b []string) (int, string) {
	n := len(a)
	if len(b) < n {
		n = len(b)
	}
	for i := 0; i < n; i++ {
		if a[i] != b[i] {
			lo := i - 4
			if lo < 0 {
				lo = 0
			}
			return i, fmt.Sprintf("line %d: %q vs %q (context %v | %v)", i, a[i], b[i], a[lo:min(i+3, len(a))], b[lo:min(i+3, len(b))])
		}
	}
	if len(a) != len(b) {
		return n, fmt.Sprintf("one output is a prefix of the other (%d vs %d lines)", len(a), len(b))
	}
	return -1, ""
}

func sameRun(a, b *simpool.Result) (bool, string) {
	if i, msg := firstDiff(a.Out, b.Out); i >= 0 {
		return false, msg
	}
	if a.End != b.End {
		return false, fmt.Sprintf("termination differs: %q vs %q", a.End, b.End)
	}
	return true, ""
}

// Judge compares D, R0 and every Rs.
func Judge(p *progeng.Prog, o *progeng.Obs) *progeng.Verdict {
	d := &o.Runs["D"][0]
	rs := o.Runs["R"]
	if strings.HasPrefix(d.End, "budget") {
		return &progeng.Verdict{Class: "generator-nontermination", Message: "D build did not terminate within the budget", Variant: "D"}
	}
	if ok, msg := sameRun(d, &rs[0]); !ok {
		return &progeng.Verdict{Class: "direct-vs-resumable", Message: "D (direct form) and R0 (resumable form, no suspension) differ: " + msg, Digest: msg, Variant: "R", Run: 0}
	}
	for k := 1; k < len(rs); k++ {
		if ok, msg := sameRun(&rs[0], &rs[k]); !ok {
			return &progeng.Verdict{Class: "suspension-visible", Message: fmt.Sprintf("R0 and Rs (%d suspensions) differ: %s", rs[k].Fired["suspensions"], msg), Digest: msg, Variant: "R", Run: k}
		}
	}
	return nil
}

func Spec(tier string, seed int64, workers int) progeng.Spec {
	sp := progeng.Spec{Property: "C02", Tier: tier, Seed: seed, Workers: workers,
		SimCfg: map[string]any{"budget": 60000, "yieldWeights": []int{2, 1}},
		Judge:  Judge,
		Rule: "one evaluation = one simulated execution of a generated program variant under one choice tape (D once; R under the all-default tape and seeded suspension tapes); distinct = distinct (program, variant, timer schedule digest, suspension count); " +
			"non-trivial = at least one dynamic yield-atom occurrence suspended the goroutine",
		Real: []string{"gopherjs compiler built from /repo working tree (blocking analysis, flattening, $restore/$blk machinery as emitted)", "prelude goroutines.js/$callDeferred/$panic/$recover", "generated programs compiled by that compiler in D and R form"},
		Stub: []string{"Node event loop and timers (simnode)", "Date.now", "Math.random", "process.exit", "console"},
		Assumptions: []string{
			"generated programs stay in the subset where Go fixes the evaluation order (Appendix C)",
			"D and R differ only in the helper package's maybe() function (build tag yieldr)",
		},
	}
	tapes := 24
	if tier == "thorough" {
		sp.Cases, sp.Budget, tapes = 6000, 90*time.Minute, 60
	} else {
		sp.Cases, sp.Budget = 160, 4*time.Minute
	}
	sp.Variants = []progeng.Variant{{Name: "D"}, {Name: "R", Tags: "yieldr", Tapes: tapes}}
	sp.Generate = func(seed int64, i int) *progeng.Prog {
		r := rng.New(seed, "C02", "prog", i)
		if i%4 == 3 {
			// call-chain programs: every link kind between main and a yield atom, callers declared before callees
			cp := seqgen.GenerateChains(r, 1+r.Intn(3))
			return &progeng.Prog{Files: cp.Files, Lib: "seqlib", Features: cp.FeatureList(), Clean: true, Atoms: cp.Atoms}
		}
		sw := rng.New(seed, "C02", "swarm", i/10)
		o := seqgen.Opts{Funcs: 2 + sw.Intn(4), Stmts: 6 + sw.Intn(10), Depth: 2 + sw.Intn(2), Clean: i%8 != 6, Goroutine: sw.Chance(1, 2), Unwind: sw.Chance(1, 4),
			Weights: map[string]int{"dynamic": 10 + sw.Intn(60), "panicky": sw.Intn(70)}}
		sp := seqgen.Generate(r, o)
		p := &progeng.Prog{Files: sp.Files, Lib: "seqlib", Features: sp.FeatureList(), Clean: sp.Clean, Atoms: sp.Atoms}
		for _, u := range sp.Units {
			p.Units = append(p.Units, progeng.Unit{File: "main.go", From: u.From, To: u.To, Form: u.Form, Depth: u.Depth})
		}
		return p
	}
	sp.KnownMatch = func(kf *known.File, p *progeng.Prog, v *progeng.Verdict) string {
		return kf.MatchProg("C02", p.Files["main.go"], p.Clean, v.Class, v.Message)
	}
	return sp
}

func Run(tier string, seed int64, workers int) int { return progeng.Run(Spec(tier, seed, workers)) }

func Replay(rp *evidence.Replay) int { return progeng.Replay(Spec("quick", rp.Seed, 1), rp) }
