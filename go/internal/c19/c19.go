// Package c19 is the C19 check. Stream facet: sourcemapx.Filter as a stream transducer under every chunking
// and downstream write faults (harness in package sourcemapx through the build overlay). Position facet:
// generated programs compiled by the tree's CLI with source maps (plain and minified): no hint byte in the
// output, every mapping inside the generated file and inside an existing line of the named original file,
// and - in the simulated event loop, also after the function was suspended and resumed - the JavaScript stack
// frame of a call at a known Go line resolves through the map to that file and line.
package c19

import (
	"bytes"
	"encoding/json"
	"fmt"
	"os"
	"os/exec"
	"path/filepath"
	"regexp"
	"sort"
	"strconv"
	"strings"
	"sync"
	"time"

	"verif/internal/evidence"
	"verif/internal/gharness"
	"verif/internal/govl"
	"verif/internal/jbuild"
	"verif/internal/rng"
	"verif/internal/seqgen"
	"verif/internal/simpool"
)

func streamSpec(tier string, seed int64, workers int) gharness.Spec {
	sp := gharness.Spec{Property: "C19", Tier: tier, Seed: seed, Workers: workers, Pkg: "./internal/sourcemapx", Level: "exploration",
		Setup: func(o *govl.Overlay) error {
			return o.AddFromVerif("c19/c19_test.go.txt", "internal/sourcemapx/zz_verif_c19_test.go")
		},
		EnumTests:  []string{"TestVerifChunkEnum"},
		RapidTests: []string{"TestVerifStreamRapid"},
		Procs:      workers / 2,
	}
	if sp.Procs < 1 {
		sp.Procs = 1
	}
	if tier == "thorough" {
		sp.RapidChecks = 300000
	} else {
		sp.RapidChecks = 20000
	}
	return sp
}

// ---------------------------------------------------------------- source map decoding

type smap struct {
	Version  int      `json:"version"`
	File     string   `json:"file"`
	Sources  []string `json:"sources"`
	Names    []string `json:"names"`
	Mappings string   `json:"mappings"`
}

type mapping struct {
	genLine, genCol   int // 0-based
	src               int
	origLine, origCol int // 0-based
	hasSrc            bool
}

const b64 = "ABCDEFGHIJKLMNOPQRSTUVWXYZabcdefghijklmnopqrstuvwxyz0123456789+/"

func decodeMappings(s string) ([]mapping, error) {
	var out []mapping
	genLine, genCol, src, ol, oc, name := 0, 0, 0, 0, 0, 0
	i := 0
	readVLQ := func() (int, error) {
		shift, val := 0, 0
		for {
			if i >= len(s) {
				return 0, fmt.Errorf("truncated VLQ")
			}
			d := strings.IndexByte(b64, s[i])
			if d < 0 {
				return 0, fmt.Errorf("bad base64 digit %q", s[i])
			}
			i++
			val |= (d & 31) << shift
			shift += 5
			if d&32 == 0 {
				break
			}
		}
		if val&1 == 1 {
			return -(val >> 1), nil
		}
		return val >> 1, nil
	}
	for i < len(s) {
		switch s[i] {
		case ';':
			genLine++
			genCol = 0
			i++
			continue
		case ',':
			i++
			continue
		}
		var fields []int
		for i < len(s) && s[i] != ',' && s[i] != ';' {
			v, err := readVLQ()
			if err != nil {
				return nil, err
			}
			fields = append(fields, v)
		}
		m := mapping{genLine: genLine}
		genCol += fields[0]
		m.genCol = genCol
		if len(fields) >= 4 {
			src += fields[1]
			ol += fields[2]
			oc += fields[3]
			m.src, m.origLine, m.origCol, m.hasSrc = src, ol, oc, true
		}
		if len(fields) >= 5 {
			name += fields[4]
		}
		out = append(out, m)
	}
	return out, nil
}

// resolveSource finds the file a source-map entry names. Go files of augmented standard packages are
// presented under virtual names; they are mapped back to the files of the working tree they were made from.
func resolveSource(name, repo string) (string, bool) {
	if _, err := os.Stat(name); err == nil {
		return name, true
	}
	if i := strings.Index(name, "/src/github.com/gopherjs/gopherjs/"); i >= 0 {
		p := filepath.Join(repo, name[i+len("/src/github.com/gopherjs/gopherjs/"):])
		if _, err := os.Stat(p); err == nil {
			return p, true
		}
	}
	if base := filepath.Base(name); strings.HasPrefix(base, "gopherjs__") {
		if i := strings.Index(name, "/src/"); i >= 0 {
			p := filepath.Join(repo, "compiler", "natives", "src", filepath.Dir(name[i+5:]), strings.TrimPrefix(base, "gopherjs__"))
			if _, err := os.Stat(p); err == nil {
				return p, true
			}
		}
	}
	return "", false
}

var lineCache sync.Map

func lineCount(path string) int {
	if v, ok := lineCache.Load(path); ok {
		return v.(int)
	}
	b, err := os.ReadFile(path)
	n := 0
	if err == nil {
		n = bytes.Count(b, []byte{'\n'})
		if len(b) > 0 && b[len(b)-1] != '\n' {
			n++
		}
	}
	lineCache.Store(path, n)
	return n
}

var fileLineCache sync.Map

func fileLines(path string) [][]byte {
	if v, ok := fileLineCache.Load(path); ok {
		return v.([][]byte)
	}
	b, _ := os.ReadFile(path)
	l := bytes.Split(b, []byte{'\n'})
	fileLineCache.Store(path, l)
	return l
}

func clipLine(l []byte, col int) string {
	if col < 0 || col > len(l) {
		return ""
	}
	e := col + 24
	if e > len(l) {
		e = len(l)
	}
	return string(l[col:e])
}

type violation struct {
	class, msg string
	prog       *seqgen.Program
	tape       []int
	variant    string
}

var reFrame = regexp.MustCompile(`\(?([^()\s]+):(\d+):(\d+)\)?\s*$`)

// lookup returns the mapping that covers (line, col) (0-based): the last mapping at or before that position in
// (line, column) order. A statement's code may span several generated lines with one mapping at its start, so
// the search continues on earlier lines when the line itself has nothing at or before col (the way Chrome and
// Node resolve positions; per-line consumers resolve fewer positions, which the property does not ask for).
func lookup(byLine map[int][]mapping, line, col int) (mapping, bool) {
	ms := byLine[line]
	idx := sort.Search(len(ms), func(i int) bool { return ms[i].genCol > col }) - 1
	if idx >= 0 {
		return ms[idx], true
	}
	for l := line - 1; l >= 0; l-- {
		if ms := byLine[l]; len(ms) > 0 {
			return ms[len(ms)-1], true
		}
	}
	return mapping{}, false
}

type corpusResult struct {
	counters   map[string]int
	violations []violation
	samples    []any
	infra      error
}

func checkProgram(env *jbuild.Env, pool *simpool.Pool, p *seqgen.Program, dir string, seed string, tapes int, res *corpusResult, mu *sync.Mutex) {
	add := func(k string, n int) { mu.Lock(); res.counters[k] += n; mu.Unlock() }
	fail := func(v violation) { mu.Lock(); res.violations = append(res.violations, v); mu.Unlock() }
	for k, n := range p.Features {
		if strings.HasPrefix(k, "where:") {
			add("markers_placed:"+strings.TrimPrefix(k, "where:"), n)
		}
	}
	for _, variant := range []struct {
		name   string
		minify bool
	}{{"plain", false}, {"minified", true}} {
		out := filepath.Join(dir, "out_"+variant.name+".js")
		args := []string{"build", "--localmap", "--tags", "yieldr", "-o", out}
		if variant.minify {
			args = append(args, "-m")
		}
		args = append(args, ".")
		cmd := exec.Command(env.Gopherjs, args...)
		cmd.Dir = dir
		cmd.Env = append(os.Environ(), "GOFLAGS=-mod=mod", "GOPROXY=off", "GOSUMDB=off", "GOTOOLCHAIN=local", "GOPHERJS_SKIP_VERSION_CHECK=1", "GO111MODULE=on", "XDG_CACHE_HOME="+filepath.Join(env.Scratch, "xdgcache"))
		if b, err := cmd.CombinedOutput(); err != nil {
			mu.Lock()
			res.infra = fmt.Errorf("gopherjs build failed: %v\n%s", err, b)
			mu.Unlock()
			return
		}
		js, err := os.ReadFile(out)
		if err != nil {
			mu.Lock()
			res.infra = err
			mu.Unlock()
			return
		}
		raw, err := os.ReadFile(out + ".map")
		if err != nil {
			mu.Lock()
			res.infra = err
			mu.Unlock()
			return
		}
		add("programs_compiled:"+variant.name, 1)
		add("evaluations", 1)
		if i := bytes.IndexByte(js, '\b'); i >= 0 {
			fail(violation{class: "hint-byte-in-output", msg: fmt.Sprintf("%s build: the emitted JavaScript contains the hint byte at offset %d", variant.name, i), prog: p, variant: variant.name})
		}
		var sm smap
		if err := json.Unmarshal(raw, &sm); err != nil {
			fail(violation{class: "map-unreadable", msg: "source map is not valid JSON: " + err.Error(), prog: p, variant: variant.name})
			continue
		}
		maps, err := decodeMappings(sm.Mappings)
		if err != nil {
			fail(violation{class: "map-unreadable", msg: "source map mappings cannot be decoded: " + err.Error(), prog: p, variant: variant.name})
			continue
		}
		add("mappings_checked", len(maps))
		jsLines := bytes.Split(js, []byte{'\n'})
		byLine := map[int][]mapping{}
		for _, m := range maps {
			byLine[m.genLine] = append(byLine[m.genLine], m)
		}
		for _, m := range maps {
			if m.genLine >= len(jsLines) || m.genCol > len(jsLines[m.genLine]) {
				fail(violation{class: "mapping-outside-generated-file", msg: fmt.Sprintf("%s build: mapping at generated %d:%d lies outside the generated file", variant.name, m.genLine+1, m.genCol), prog: p, variant: variant.name})
				break
			}
			if !m.hasSrc {
				continue
			}
			if m.src < 0 || m.src >= len(sm.Sources) {
				fail(violation{class: "mapping-outside-original-file", msg: fmt.Sprintf("%s build: mapping names source index %d of %d", variant.name, m.src, len(sm.Sources)), prog: p, variant: variant.name})
				break
			}
			path, ok := resolveSource(sm.Sources[m.src], env.Repo)
			if !ok {
				fail(violation{class: "mapping-names-missing-file", msg: fmt.Sprintf("%s build: the source map names the original file %q, which does not exist (neither on disk nor in the working tree)", variant.name, sm.Sources[m.src]), prog: p, variant: variant.name})
				break
			}
			if n := lineCount(path); m.origLine < 0 || m.origLine >= n {
				fail(violation{class: "mapping-outside-original-file", msg: fmt.Sprintf("%s build: mapping points at line %d of %s, which has %d lines", variant.name, m.origLine+1, sm.Sources[m.src], n), prog: p, variant: variant.name})
				break
			}
		}
		for l := range byLine {
			sort.Slice(byLine[l], func(a, b int) bool { return byLine[l][a].genCol < byLine[l][b].genCol })
		}
		// JavaScript chunks (prelude, .inc.js): the recorded generated position must be where that code actually
		// is. Top-level prelude names ($-prefixed) survive minification, so wherever the original position holds
		// such an identifier the generated position must hold the same one.
		identAt := func(line []byte, col int) string {
			if col < 0 || col >= len(line) {
				return ""
			}
			isID := func(b byte) bool {
				return b == '$' || b == '_' || (b >= '0' && b <= '9') || (b >= 'a' && b <= 'z') || (b >= 'A' && b <= 'Z')
			}
			if col > 0 && isID(line[col-1]) {
				return "" // not at the start of a token
			}
			e := col
			for e < len(line) && isID(line[e]) {
				e++
			}
			return string(line[col:e])
		}
		jsBad := 0
		isIDByte := func(b byte) bool {
			return b == '$' || b == '_' || (b >= '0' && b <= '9') || (b >= 'a' && b <= 'z') || (b >= 'A' && b <= 'Z')
		}
		for _, m := range maps {
			if !m.hasSrc || !strings.HasSuffix(sm.Sources[m.src], ".js") || m.genLine >= len(jsLines) {
				continue
			}
			// A mapping of a JavaScript chunk (prelude, .inc.js) is made by esbuild for the start of a token and then
			// offset by where the chunk was written: one that points into the middle of an identifier, keyword or
			// number was offset wrongly.
			if gl := jsLines[m.genLine]; m.genCol > 0 && m.genCol < len(gl) && isIDByte(gl[m.genCol-1]) && isIDByte(gl[m.genCol]) {
				add("js_chunk_mappings_inside_a_token", 1)
				jsBad++
				if jsBad == 1 {
					fail(violation{class: "js-chunk-mapping-misplaced", msg: fmt.Sprintf("%s build: the mapping for %s:%d:%d points at generated %d:%d, into the middle of a token: %q", variant.name, sm.Sources[m.src], m.origLine+1, m.origCol, m.genLine+1, m.genCol, clipLine(jsLines[m.genLine], m.genCol-6)), prog: p, variant: variant.name})
				}
				continue
			}
			add("js_chunk_mappings_at_token_boundaries", 1)
			path, ok := resolveSource(sm.Sources[m.src], env.Repo)
			if !ok {
				continue
			}
			ol := fileLines(path)
			if m.origLine >= len(ol) {
				continue
			}
			want := identAt(ol[m.origLine], m.origCol)
			if len(want) < 3 || want[0] != '$' {
				continue
			}
			add("js_chunk_identifier_mappings_checked", 1)
			gc := m.genCol
			for gl := jsLines[m.genLine]; gc < len(gl) && (gl[gc] == ' ' || gl[gc] == '\t'); gc++ {
				// a mapping may start at the indentation in front of the token it describes
			}
			// esbuild repeats the previous mapping at the start of every generated line, so a mapping need not sit on
			// the token it names; only a generated position that itself holds a $-identifier is comparable
			if got := identAt(jsLines[m.genLine], gc); len(got) >= 3 && got[0] == '$' && got != want {
				jsBad++
				if jsBad == 1 {
					fail(violation{class: "js-chunk-mapping-misplaced", msg: fmt.Sprintf("%s build: the mapping for %s:%d:%d (identifier %s) points at generated %d:%d, where the code reads %q", variant.name, sm.Sources[m.src], m.origLine+1, m.origCol, want, m.genLine+1, m.genCol, clipLine(jsLines[m.genLine], m.genCol)), prog: p, variant: variant.name})
				}
			}
		}
		// stack frames under suspension tapes
		runs := []simpool.Run{{Tape: []int{}}}
		for k := 0; k < tapes; k++ {
			runs = append(runs, simpool.Run{Seed: rng.Derive(seed, variant.name, k)})
		}
		f := false
		jr, err := pool.Do(&simpool.Job{ID: 1, Script: out, Cfg: map[string]any{"budget": 60000, "yieldWeights": []int{2, 1}}, Runs: runs, WantHist: &f, Evict: true})
		if err != nil {
			mu.Lock()
			res.infra = err
			mu.Unlock()
			return
		}
		mainGo := filepath.Join(dir, "main.go")
		yWhere := filepath.Join(dir, "y", "where_js.go")
		for ri, r := range jr.Results {
			add("evaluations", 1)
			add("runs", 1)
			add("suspensions", r.Fired["suspensions"])
			if r.End != "drained" {
				fail(violation{class: "abnormal-end", msg: fmt.Sprintf("%s build ended with %q", variant.name, r.End), prog: p, tape: r.Tape, variant: variant.name})
				break
			}
			for _, line := range r.Out {
				i := strings.Index(line, " WHERE ")
				if i < 0 {
					continue
				}
				rest := strings.SplitN(line[i+7:], " ", 2)
				id, _ := strconv.Atoi(rest[0])
				frames := strings.Split(rest[1], "\n")
				var locs [][2]int
				for _, fr := range frames {
					if m := reFrame.FindStringSubmatch(fr); m != nil && strings.HasSuffix(m[1], filepath.Base(out)) {
						l, _ := strconv.Atoi(m[2])
						c, _ := strconv.Atoi(m[3])
						locs = append(locs, [2]int{l - 1, c - 1})
					}
				}
				if len(locs) < 2 {
					fail(violation{class: "stack-unparsable", msg: fmt.Sprintf("cannot find two frames of the generated file in the stack of marker %d: %q", id, rest[1]), prog: p, tape: r.Tape, variant: variant.name})
					break
				}
				add("stack_frames_resolved", 2)
				if r.Fired["suspensions"] > 0 {
					add("stack_frames_resolved_in_runs_with_suspensions", 2)
				}
				// frame 0: inside y.Where; frame 1: the statement that called it
				want := []struct {
					file string
					line int
				}{{yWhere, 9}, {mainGo, p.Wheres[id]}}
				if p.WhereV[id] {
					want[0].line = 14 // y.WhereV
				}
				stmtText := ""
				if ls := strings.Split(p.Files["main.go"], "\n"); p.Wheres[id] >= 1 && p.Wheres[id] <= len(ls) {
					stmtText = strings.TrimSpace(ls[p.Wheres[id]-1])
				}
				for fi, w := range want {
					m, ok := lookup(byLine, locs[fi][0], locs[fi][1])
					if !ok || !m.hasSrc {
						fail(violation{class: "frame-unmapped", msg: fmt.Sprintf("%s build, marker %d: stack frame %d at generated %d:%d lies in unmapped code; the Go statement is at %s:%d: %s", variant.name, id, fi, locs[fi][0]+1, locs[fi][1]+1, filepath.Base(w.file), w.line, stmtText), prog: p, tape: r.Tape, variant: variant.name})
						break
					}
					if alt, ok := p.WhereAlt[id]; ok && fi == 1 && sm.Sources[m.src] == w.file && m.origLine+1 == alt {
						continue
					}
					if sm.Sources[m.src] != w.file || m.origLine+1 != w.line {
						fail(violation{class: "frame-maps-to-wrong-line", msg: fmt.Sprintf("%s build, marker %d (run %d, %d suspensions): stack frame %d at generated %d:%d maps to %s:%d, but the Go statement is at %s:%d: %s",
							variant.name, id, ri, r.Fired["suspensions"], fi, locs[fi][0]+1, locs[fi][1]+1, sm.Sources[m.src], m.origLine+1, w.file, w.line, stmtText), prog: p, tape: r.Tape, variant: variant.name})
						break
					}
				}
			}
		}
		mu.Lock()
		if len(res.samples) < 1 {
			res.samples = append(res.samples, map[string]any{"what": "one compiled program: counts", "variant": variant.name, "js_bytes": len(js), "mappings": len(maps), "sources": sm.Sources, "where_markers": len(p.Wheres)})
		}
		mu.Unlock()
	}
}

func corpus(tier string, seed int64, workers int) (int, *corpusResult) {
	n, tapes, budget := 40, 3, 6*time.Minute
	if tier == "thorough" {
		n, tapes, budget = 1500, 8, 45*time.Minute
	}
	deadline := time.Now().Add(budget) // programs not started by then are not started (counted in the summary)
	env, err := jbuild.Setup("c19")
	if err != nil {
		fmt.Fprintln(os.Stderr, err)
		return 2, nil
	}
	defer env.Cleanup()
	pool, err := simpool.New(filepath.Join(env.Verif, "sim", "simnode.js"), workers)
	if err != nil {
		fmt.Fprintln(os.Stderr, err)
		return 2, nil
	}
	defer pool.Close()
	res := &corpusResult{counters: map[string]int{}}
	var mu sync.Mutex
	idx := make(chan int, n)
	for i := 0; i < n; i++ {
		idx <- i
	}
	close(idx)
	var wg sync.WaitGroup
	for w := 0; w < workers; w++ {
		wg.Add(1)
		go func() {
			defer wg.Done()
			for i := range idx {
				mu.Lock()
				stop := res.infra != nil || len(res.violations) > 20 || time.Now().After(deadline)
				if !stop {
					res.counters["programs"]++
				}
				mu.Unlock()
				if stop {
					continue
				}
				sw := rng.New(seed, "C19", "swarm", i/5)
				o := seqgen.Opts{Funcs: 2 + sw.Intn(3), Stmts: 6 + sw.Intn(8), Depth: 2 + sw.Intn(2), Clean: true, Where: true, Goroutine: sw.Bool(), Unwind: sw.Chance(1, 3)}
				p := seqgen.Generate(rng.New(seed, "C19", "prog", i), o)
				dir := filepath.Join(env.Scratch, fmt.Sprintf("c19prog%05d", i))
				os.MkdirAll(dir, 0o755)
				copyDir(filepath.Join(env.Verif, "workloads", "seqlib"), dir)
				jbuild.WriteFiles(dir, p.Files)
				checkProgram(env, pool, p, dir, rng.Derive(seed, "C19", "tapes", i), tapes, res, &mu)
				os.RemoveAll(dir)
			}
		}()
	}
	wg.Wait()
	if res.infra != nil {
		fmt.Fprintln(os.Stderr, "infrastructure failure:", res.infra)
		return 2, nil
	}
	return 0, res
}

func copyDir(src, dst string) {
	filepath.Walk(src, func(path string, info os.FileInfo, err error) error {
		if err != nil {
			return err
		}
		rel, _ := filepath.Rel(src, path)
		if info.IsDir() {
			return os.MkdirAll(filepath.Join(dst, rel), 0o755)
		}
		b, err := os.ReadFile(path)
		if err != nil {
			return err
		}
		return os.WriteFile(filepath.Join(dst, rel), b, 0o644)
	})
}

func Run(tier string, seed int64, workers int) int {
	start := time.Now()
	code, ev := gharness.RunCollect(streamSpec(tier, seed, workers))
	if ev == nil {
		return 2
	}
	ccode, res := corpus(tier, seed, workers)
	if ccode == 2 {
		return 2
	}
	reported := map[string]bool{}
	nv := 0
	for _, v := range res.violations {
		nv++
		if reported[v.class] {
			continue
		}
		reported[v.class] = true
		prog, _ := json.Marshal(map[string]any{"files": v.prog.Files, "wheres": v.prog.Wheres, "wherev": v.prog.WhereV, "wherealt": v.prog.WhereAlt, "variant": v.variant})
		rp := &evidence.Replay{Property: "C19", Class: v.class, Message: v.msg, Kind: "c19corpus", Workload: prog, Tape: v.tape, Digest: evidence.Digest(v.class), Seed: seed, FoundAt: tier + " corpus"}
		path, err := evidence.WriteReplay(jbuild.VerifDir(), rp)
		if err != nil {
			fmt.Fprintln(os.Stderr, err)
			return 2
		}
		fmt.Printf("VIOLATION property=C19 replay=%s\n  class=%s %s\n", path, v.class, v.msg)
	}
	cov := ev.Coverage
	cov["evaluations"] = cov["evaluations"].(int) + res.counters["evaluations"]
	cov["distinct_nontrivial"] = cov["distinct_nontrivial"].(int) + res.counters["stack_frames_resolved_in_runs_with_suspensions"]/2
	cov["rule"] = "stream facet: one evaluation = one synthetic hinted stream pushed through a real Filter under one chunking into Write calls (never splitting a hint) and one downstream fault plan, compared with the position model over the unchunked stream; non-trivial = more than one Write call or a downstream fault, deduplicated by stream+chunking+fault. " +
		"position facet: one evaluation = one compiled program's map checked structurally, or one simulated run whose marker stack frames are resolved through the map; non-trivial there = a marker frame resolved in a run with suspensions"
	cov["corpus_counters"] = res.counters
	cov["samples"] = append(cov["samples"].([]any), res.samples...)
	cov["real_components"] = []string{"internal/sourcemapx Filter/Hint/Identifier from /repo working tree", "gopherjs CLI built from /repo working tree (hint emission, whitespace removal, prelude offsetting)", "esbuild minifier", "prelude scheduler (resumption before the marker)"}
	cov["stubbed_components"] = []string{"downstream writer (fault-injecting sink)", "Node event loop (simnode) for the stack-frame runs"}
	ev.Assumptions = []string{"generated columns are UTF-16 code units, the unit in which JavaScript engines report stack frames (with bytes, one non-ASCII name shifts every later frame of a minified package); for stack frames only the resolved file and line are asserted", "virtual source names of augmented standard packages are resolved to the working-tree files they were made from"}
	ev.Violations += nv
	ev.WallS = time.Since(start).Seconds()
	if err := ev.Write(jbuild.VerifDir()); err != nil {
		fmt.Fprintln(os.Stderr, err)
		return 2
	}
	fmt.Printf("C19 corpus: %d programs x 2 variants, %d mappings checked, %d stack frames resolved (%d in runs with suspensions), %d violations\n",
		res.counters["programs_compiled:plain"], res.counters["mappings_checked"], res.counters["stack_frames_resolved"], res.counters["stack_frames_resolved_in_runs_with_suspensions"], nv)
	if code == 1 || nv > 0 {
		return 1
	}
	return code
}

// Replay handles both kinds of C19 replay files.
func Replay(rp *evidence.Replay) int {
	if rp.Kind == "govl:C19" {
		return gharness.Replay(streamSpec("quick", rp.Seed, 1), rp)
	}
	var w struct {
		Files    map[string]string `json:"files"`
		Wheres   map[int]int       `json:"wheres"`
		WhereV   map[int]bool      `json:"wherev"`
		WhereAlt map[int]int       `json:"wherealt"`
	}
	if err := json.Unmarshal(rp.Workload, &w); err != nil {
		fmt.Fprintln(os.Stderr, err)
		return 2
	}
	env, err := jbuild.Setup("c19replay")
	if err != nil {
		fmt.Fprintln(os.Stderr, err)
		return 2
	}
	defer env.Cleanup()
	pool, err := simpool.New(filepath.Join(env.Verif, "sim", "simnode.js"), 1)
	if err != nil {
		return 2
	}
	defer pool.Close()
	dir := filepath.Join(env.Scratch, "prog")
	os.MkdirAll(dir, 0o755)
	copyDir(filepath.Join(env.Verif, "workloads", "seqlib"), dir)
	jbuild.WriteFiles(dir, w.Files)
	res := &corpusResult{counters: map[string]int{}}
	var mu sync.Mutex
	checkProgram(env, pool, &seqgen.Program{Files: w.Files, Wheres: w.Wheres, WhereV: w.WhereV, WhereAlt: w.WhereAlt}, dir, "replay", 3, res, &mu)
	if res.infra != nil {
		fmt.Fprintln(os.Stderr, res.infra)
		return 2
	}
	for _, v := range res.violations {
		fmt.Printf("replay: class=%s %s\n", v.class, v.msg)
	}
	if len(res.violations) > 0 {
		fmt.Printf("VIOLATION property=C19 replay=%s\n", os.Getenv("VERIF_REPLAY_PATH"))
		return 1
	}
	fmt.Println("replay: no violation any more")
	return 0
}
