module verif

go 1.23

require (
	github.com/anishathalye/porcupine v1.3.0
	pgregory.net/rapid v1.3.0
)
