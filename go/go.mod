module verif

go 1.23

require (
	github.com/anishathalye/porcupine v1.3.0
	golang.org/x/tools v0.16.0
	pgregory.net/rapid v1.3.0
)

require golang.org/x/mod v0.14.0 // indirect
