#!/bin/bash
# Runs the quick (or given) tier of the relevant check against every seeded breaking change under
# /verif/seeded/<name>/ (patch.diff applied to a scratch worktree of /repo; /repo itself is never modified).
#   tools/seeded.sh [-t tier] [name ...]
cd "$(dirname "$0")/.."
TIER=quick
if [ "$1" = "-t" ]; then TIER="$2"; shift 2; fi
SCR="$(mktemp -d "${TMPDIR:-/tmp}/verif-seeded-XXXXXX")"
trap 'rm -rf "$SCR"' EXIT
names=("$@")
if [ ${#names[@]} -eq 0 ]; then for d in seeded/[A-Z]*/; do names+=("$(basename "$d")"); done; fi
printf "%-16s %-5s %-8s %s\n" SEEDED PROP RESULT DETAIL
for n in "${names[@]}"; do
  prop="${n%%-*}"
  wt="$SCR/wt-$n"
  git -C /repo worktree add -q --detach "$wt" HEAD || continue
  if ! git -C "$wt" apply "$PWD/seeded/$n/patch.diff" 2>"$SCR/apply.err"; then
    printf "%-16s %-5s %-8s %s\n" "$n" "$prop" "STALE" "$(head -1 "$SCR/apply.err")"
    git -C /repo worktree remove --force "$wt"; continue
  fi
  start=$(date +%s)
  VERIF_REPO="$wt" VERIF_EVIDENCE_DIR="$SCR/ev" VERIF_REPLAY_DIR="$SCR/replays" ./check "$prop" "$TIER" >"$SCR/out.txt" 2>&1
  code=$?
  el=$(( $(date +%s) - start ))
  case $code in
    1) res=CAUGHT; det="$(grep -m1 -A1 '^VIOLATION' "$SCR/out.txt" | tail -1 | cut -c1-160)";;
    0) res=MISSED; det="$(tail -1 "$SCR/out.txt" | cut -c1-160)";;
    *) res="EXIT$code"; det="$(tail -2 "$SCR/out.txt" | tr '\n' ' ' | cut -c1-160)";;
  esac
  printf "%-16s %-5s %-8s %ss %s\n" "$n" "$prop" "$res" "$el" "$det"
  git -C /repo worktree remove --force "$wt"
done
