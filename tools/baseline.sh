#!/bin/bash
# Runs the repository's test suite (guard off: there are no hooks in /repo) and compares the set of passing
# tests with the stable baseline in /root/.vp/BASELINE.json. Exit 0 iff every stable-pass test passes.
export GOFLAGS=-mod=mod GOPROXY=off GOSUMDB=off GOTOOLCHAIN=local
REPO="${1:-/repo}"
OUT="$(mktemp "${TMPDIR:-/tmp}/verif-baseline-XXXXXX.json")"
trap 'rm -f "$OUT"' EXIT
(cd "$REPO" && go test -json -vet=off -count=1 -timeout 25m ./... > "$OUT" 2>/dev/null)
python3 - "$OUT" <<'PY'
import json, sys
passed=set()
for line in open(sys.argv[1]):
    try: e=json.loads(line)
    except Exception: continue
    if e.get("Action")=="pass" and e.get("Test"):
        passed.add(e["Package"]+"::"+e["Test"])
base=json.load(open("/root/.vp/BASELINE.json"))["stable_pass"]
missing=[t for t in base if t not in passed]
print("baseline: %d stable tests, %d passed now, %d missing" % (len(base), len(base)-len(missing), len(missing)))
for t in missing[:40]: print("  MISSING", t)
sys.exit(1 if missing else 0)
PY
