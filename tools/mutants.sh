#!/bin/bash
# Sensitivity campaign: applies each patch under /verif/mutants (or the ones named on the command line) to a
# scratch worktree of /repo, runs the named property's quick check against it (VERIF_REPO), and reports whether
# the check caught it (exit 1 + VIOLATION). Nothing is applied to /repo itself; evidence and replays of these
# runs go to a scratch directory.
#   tools/mutants.sh [-t tier] [-p property] [name ...]     (-p: only that property's check)
cd "$(dirname "$0")/.."
TIER=quick
ONLYP=
if [ "$1" = "-t" ]; then TIER="$2"; shift 2; fi
if [ "$1" = "-p" ]; then ONLYP="$2"; shift 2; fi
SCR="$(mktemp -d "${TMPDIR:-/tmp}/verif-mut-XXXXXX")"
trap 'rm -rf "$SCR"' EXIT
names=("$@")
if [ ${#names[@]} -eq 0 ]; then for f in mutants/*.diff; do names+=("$(basename "$f" .diff)"); done; fi
printf "%-44s %-5s %-8s %s\n" MUTANT PROP RESULT DETAIL
for n in "${names[@]}"; do
  f="mutants/$n.diff"
  prop="$(sed -n 's/^# property: *//p' "$f" | head -1)"
  wt="$SCR/wt-$n"
  git -C /repo worktree add -q --detach "$wt" HEAD || { echo "$n: cannot create worktree"; continue; }
  if ! git -C "$wt" apply "$PWD/$f" 2>"$SCR/apply.err"; then
    printf "%-44s %-5s %-8s %s\n" "$n" "$prop" "STALE" "$(head -1 "$SCR/apply.err")"
    git -C /repo worktree remove --force "$wt"; continue
  fi
  for p in $prop; do
    if [ -n "$ONLYP" ] && [ "$p" != "$ONLYP" ]; then continue; fi
    start=$(date +%s)
    VERIF_REPO="$wt" VERIF_EVIDENCE_DIR="$SCR/ev" VERIF_REPLAY_DIR="$SCR/replays" ./check "$p" "$TIER" >"$SCR/out.txt" 2>&1
    code=$?
    el=$(( $(date +%s) - start ))
    case $code in
      1) res=CAUGHT; det="$(grep -m1 -A1 '^VIOLATION' "$SCR/out.txt" | tail -1 | cut -c1-150)";;
      0) res=MISSED; det="$(tail -1 "$SCR/out.txt" | cut -c1-150)";;
      *) res="EXIT$code"; det="$(tail -2 "$SCR/out.txt" | tr '\n' ' ' | cut -c1-150)";;
    esac
    printf "%-44s %-5s %-8s %ss %s\n" "$n" "$p" "$res" "$el" "$det"
  done
  git -C /repo worktree remove --force "$wt"
done
