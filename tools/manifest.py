#!/usr/bin/env python3
# Regenerates /verif/MANIFEST.json from the tables below and validates it against the schema.
import json, os, sys
HERE = os.path.dirname(os.path.dirname(os.path.abspath(__file__)))

NA = [
("C01","Pure function of program text and baked-in inputs: no schedule, clock, fault or interleaving for a simulator to own (behaviour of concurrent programs under all runtime schedules is decided under C03)."),
("C04","The instance set and per-instance behaviour are fixed at compile time; no scheduler, clock or fault in it (per-instance blocking is a call kind inside C02's workload; the session-order defect is reported under C17)."),
("C05","Compile-time reachability over a fixed program: nothing for a scheduler or a fault to vary."),
("C06","Pure functions of operand values; no schedule, clock, I/O or fault."),
("C07","Pure function of the program; whether a clone was inserted involves no interleaving or fault."),
("C09","Pure function of the program's type graph; no schedule, clock or fault."),
("C12","A syntactic rewrite: pure function of (original files, override files)."),
("C14","Pure functions of byte sequences."),
("C15","Sequential histories on a private structure with no nondeterminism of its own: a test-generation problem, not a simulation target."),
("C16","Pure text-to-text transformation; equivalence of two builds of one program, no schedule or fault."),
("C18","Pure function of (file name, constraint expression, tag set)."),
]

CHECKS = {
 "C03": dict(
   category="exploration", design_ref="DESIGN.md §4 C03, Appendix A",
   text="Seeded search over schedules: small goroutine x channel-operation scenarios (chanscript, compiled by the tree's compiler) run in a simulated Node event loop under seeded choice tapes (select picks, time-slice breaks, clock steps, timer order and lateness, suspensions); every observed outcome must be a member of the outcome set obtained by exhaustively exploring an independent reference model of Go channel semantics for that scenario. Sampling, not proof: a clean batch is evidence.",
   note="Trusted: the reference model (written from the Go spec), the simulated event loop's environment contract (timers never early, HTML/Node ordering guarantee), node's vm module. sync/time natives cannot be compiled in this sandbox and are not covered.",
   technique="deterministic simulation (seeded event-loop simulator + choice tape) with model-based outcome membership"),
 "C11": dict(
   category="exploration", design_ref="DESIGN.md §4 C11, Appendix A",
   text="Event-loop callback facet only: exposed Go functions are invoked by the simulated event loop at seeded instants (between any two scheduler turns, while goroutines are parked in channel queues), performing channel operations directly, spawning goroutines or echoing arguments; the reference model extended with a callback actor decides every outcome: an enabled operation takes effect, one that would block yields the documented error and has no effect at all. Also: stable identity of an exposed function, deadlock report switched off by exposing a function and by nothing else. The type-directed conversion tables are pure functions of the value and are not decided.",
   note="Trusted: reference model, simulator environment contract. Uncaught goroutine panics are not generated in callback scenarios (who receives an exception escaping a goroutine that runs on a callback's JavaScript stack is environment behaviour). Conversion tables / UTF-16 transcoding / typed arrays: not decided by this check.",
   technique="deterministic simulation (seeded event loop injecting JavaScript->Go callbacks) with model-based outcome membership"),
 "C13": dict(
   category="exploration", design_ref="DESIGN.md §4 C13",
   text="Concurrency facet: goroutines run operation lists on shared nosync.Mutex/RWMutex/WaitGroup/Once/Map/Pool objects and on sync/atomic variables (function forms and typed Int32/Int64/Uint32/Uint64/Uintptr/Bool/Pointer[T]/Value), with seeded suspensions between operations and inside Once.Do, Map.Range and Pool.New callbacks so that operations genuinely overlap; every history is stepped through sequential reference state machines written from the documented contracts of sync and sync/atomic: uncontended operations behave as in sync, contended ones (would block / fatal in sync) panic and leave the object unchanged, atomics are atomic (invoke and return adjacent) with Go's wrap-around, Value's misuse panics. Bit-exact math, math/bits and unicode are pure functions and are not decided.",
   note="Trusted: the reference state machines, the simulator. sync.Pool's permission to drop items is granted to nosync.Pool too. The function forms on unsafe.Pointer are not exercised (unsafe.Pointer identity is unsupported by GopherJS).",
   technique="deterministic simulation (seeded suspensions inside critical sections and callbacks) with sequential reference models over the recorded history"),
 "C02": dict(
   category="exploration", design_ref="DESIGN.md §4 C02",
   text="Seeded generator of terminating sequential programs with yield atoms in every expression position, reached through every call kind the property lists (direct, pointer/value/promoted method, method value/expression, interface, function value, generic function/method, other package, go:linkname, deferred call, chains); each program is built in direct form (atoms are plain functions) and resumable form (atoms may suspend) by the tree's compiler, the resumable build is run under the all-default tape (no suspension) and under seeded suspension tapes in the simulated event loop, and printed trace, atom occurrence sequence and termination must be identical: out(D)==out(R0)==out(Rs).",
   note="Trusted: the generator's subset rules (Appendix C), the simulator. Metamorphic oracle: GopherJS against itself, so a defect that is identical in all three builds is not seen here. Known evaluation-order shapes F6a/F6b are not generated in clean mode (7/8 of programs) and are attributed by a syntactic trigger predicate in the rest.",
   technique="deterministic simulation (seeded suspension schedules of generated programs) with a metamorphic direct-vs-resumable oracle"),
 "C08": dict(
   category="exploration", design_ref="DESIGN.md §4 C08",
   text="Concurrency facet: generated scenario functions mixing nested defers, recover at different depths (direct, indirect, deferred function itself), re-panic, replaced panics, named results modified by deferred closures, runtime.Goexit (also below frames with deferred calls), panics with int/string/error/run-time-error values and yield atoms everywhere (including inside deferred functions) run each in its own goroutine, one after the other (S) and all concurrently (M), under seeded suspension tapes in the simulated event loop; the natively built program is the reference: native(S)==gopherjs(S, any tape) and every scenario's log in gopherjs(M, any tape) equals its native log. Which operand values raise which run-time error is a pure function of the program and is not decided.",
   note="Trusted: host Go toolchain as reference, generator subset rules (Appendix C), simulator. A native-vs-GopherJS difference whose minimised program contains no defer/panic/recover/Goexit construct is counted as out-of-scope, not raised.",
   technique="deterministic simulation (seeded interleavings of goroutines suspended inside panics and deferred calls) with the native toolchain as reference model"),
 "C10": dict(
   category="exploration", design_ref="DESIGN.md §4 C10",
   text="Ordering and suspension facet: generated import DAGs (diamonds, up to 6 packages, up to 3 files each) with package-level variables depending on each other across files directly and through functions, several init functions per file, initialisers and init functions containing yield atoms, goroutines started from initialisers that hand results back over channels; direct and resumable builds by the tree's compiler run under seeded suspension tapes. The trace must be identical for every tape, every package's initialisation must be one contiguous block after the blocks of all packages it imports with main last, the order in which a package's files are presented must be a function of their names alone (cross-checked over all programs of the run), and each package's block must equal the natively built program's once the native copy's files are renamed into the observed order. Build-time rejection of invalid go:linkname uses is a compile-time fact and is not decided.",
   note="Trusted: host Go toolchain as reference for variable and init order inside a package, generator rules, simulator. The relative order of independent packages is not constrained (the property demands only 'after its imports').",
   technique="deterministic simulation (seeded suspensions inside initialisers and init functions) with the native toolchain as reference"),
 "C20": dict(
   engine="govl",
   category="fault_enumeration", design_ref="DESIGN.md §4 C20",
   text="The real build/cache code (Store, Load, serialize, deserialize, key derivation, real gzip and gob) is rebuilt with its os import bound to a simulated file system, so every file-system call is a crash point, a fault point and a scheduling point. Enumerated: a crash before every file-system call of a Store under the kill model and several seeded power-loss resolutions, with and without a previous complete entry; truncation at every length and bit flips at every byte of stored entries; an I/O error, short write or ENOSPC at every call of Store and Load; every ordered pair of configurations (one field at a time, all at once, adversarial quoting) x import paths; a staleness grid; the package under test. Explored: rapid-generated sequences of Store/Load/Clear/damage/crash-restart/I/O-fault/concurrent-process operations (processes interleaved at file-system-call granularity by the seeded scheduler), shrunk by rapid and replayed from its fail file. Oracle: a reference map from (configuration fields, import path) to stored entries; a hit must return exactly what one Store under that key provided and not be stale; Load never panics; fault-free sequences must hit.",
   note="Trusted: the simulated file system's fault models (kill: completed calls persist; power loss: metadata ordered, un-synced data torn/zero-filled), compress/gzip and encoding/gob. The cached value is a 4-field gob blob in these tests; the round trip of real sources.Sources and the end-to-end equality of cold, warm, no-cache, damaged-cache and crashed-then-rebuilt builds of unchanged sources are separate tests (see DESIGN). No workload edits sources between builds: staleness is decided only against the timestamp the caller passes in (DESIGN §13 lists what a bug hunt found beyond that).",
   technique="deterministic simulation with fault injection: simulated disk, crash/fault enumeration at every file-system call plus rapid state-machine exploration against a reference model"),
 "C19": dict(
   engine="govl",
   category="exploration", design_ref="DESIGN.md §4 C19",
   text="Stream facet: the real sourcemapx.Filter is driven as a stream transducer: synthetic streams of code bytes (newlines, multi-byte UTF-8, control bytes other than the magic byte) interleaved with position and identifier hints produced by the real Hint.Pack/WriteTo are pushed through it under enumerated and rapid-generated chunkings into Write calls that never split a hint, with a downstream writer that fails or short-writes at every byte; delivered bytes and mappings must equal an independent position model over the unchunked stream (a prefix of it under downstream faults), and never contain the hint byte. Position facet: generated programs compiled by the tree's CLI, plain and minified: no hint byte in the output, every mapping inside the generated file and inside an existing line of the named original file, and in the simulated event loop - also after the calling function was suspended and resumed - the JavaScript stack frames of marker calls at known Go lines resolve through the map to that file and line.",
   note="Trusted: the position model (generated columns in UTF-16 code units, as JavaScript engines report them), V8's stack format, esbuild emitting mappings at token starts. Marker calls sit in 30 statement forms (conditions, tags, case expressions, loop clauses, send and select operands, op-assignments, defer/go arguments, return forms, later lines of a statement), in direct and in resumable (flattened) statements; a frame is resolved with the nearest preceding mapping in (line, column) order and only file and line are compared. Mappings of JavaScript chunks (prelude, .inc.js) must name the same $-identifier on both sides and must not point into the middle of a token. Re-chunking the compiler's own raw hinted streams is covered only indirectly (same Filter code).",
   technique="deterministic simulation of the writer pipeline (seeded chunking schedules and downstream write faults) against a reference position model, plus simulated runs resolving stack frames through emitted maps"),
 "C17": dict(
   engine="govl",
   category="exploration", design_ref="DESIGN.md §4 C17",
   text="The real compiler and build.Session are compiled with every range-over-map statement of GopherJS's own packages rewritten (mechanically, with go/types, from the current working tree) to iterate keys in a canonical order permuted by a seeded tape, so map iteration order inside the compiler is a replayable choice; the session's XContext is wrapped so that file lists arrive permuted; sessions build other main packages first; minify on and off. For a corpus of generated generic-heavy multi-package programs, multi-main programs sharing a generic library and seqgen programs, sha256 of out.js and of the source map must equal the plain build of the same sources and options under every tape, permutation, history and all at once. A statistical control group builds with the unmodified CLI in fresh OS processes under Go's own map randomisation.",
   note="Trusted: the range-site rewrite preserves semantics other than order (keys deleted during the loop are skipped, as Go does); canonical key descriptors (ties and unknown key kinds are counted in evidence). Known finding F3 (two mains of one module sharing a generic package built in one session) is attributed by a narrow trigger on the history dimension.",
   technique="deterministic simulation of the compiler's own nondeterminism (seeded map-iteration order via source-level seam, file listing order, session history) with output-hash equality"),
}

def main():
    na = [p for p in NA if p[0] not in CHECKS]
    checks = []
    for pid in sorted(CHECKS):
        c = CHECKS[pid]
        checks.append({
          "property_id": pid,
          "quick_cmd": "./check %s quick" % pid,
          "thorough_cmd": "./check %s thorough" % pid,
          "evidence_file": "/verif/evidence/%s.json" % pid,
          "replay_cmd_template": "./check --replay {path}",
          "engine": c.get("engine", "simnode"),
          "level_claimed": {"category": c["category"], "text": c["text"], "design_ref": c["design_ref"]},
          "level_note": c["note"],
          "technique": c["technique"],
        })
    m = {
     "version": 1,
     "setup_cmd": "cd /verif/go && GOFLAGS=-mod=mod GOPROXY=off GOSUMDB=off GOTOOLCHAIN=local go build -o /dev/null ./cmd/verif",
     "hooks": {"guard": "verif",
               "enable": "no hooks are committed to /repo: harness code is compiled into the gopherjs module with go build -overlay/-modfile generated from /repo's working tree at check time",
               "baseline_off_cmd": "cd /repo && go test -vet=off -count=1 -timeout 25m ./...",
               "source_commits": [], "add_only": True},
     "engines": [
       {"name": "govl", "path": "/verif/go/internal/govl", "serves_properties": sorted(p for p in CHECKS if CHECKS[p].get("engine")=="govl"),
        "kind_free_text": "harness compiled into the gopherjs module through a go build overlay generated from /repo's working tree (simulated file system, recorded writer streams, seeded map-order seam); rapid for seeded operation sequences with shrinking"},
       {"name": "simnode", "path": "/verif/sim/simnode.js", "serves_properties": sorted(p for p in CHECKS if CHECKS[p].get("engine","simnode")=="simnode"),
        "kind_free_text": "deterministic simulation of the Node event loop (timers, clocks, Math.random, process.exit, injected callbacks) around GopherJS-compiled programs; Go driver under /verif/go"},
     ],
     "checks": checks,
     "notes": "Deterministic simulation with fault injection; see DESIGN.md. fix: commits in /repo are listed in known_findings.json.",
     "not_applicable": [{"property_id": a, "reason": b} for a, b in na],
    }
    json.dump(m, open(os.path.join(HERE, "MANIFEST.json"), "w"), indent=1)
    try:
        import jsonschema
        jsonschema.validate(m, json.load(open("/root/.vp/MANIFEST.schema.json")))
        print("MANIFEST.json valid;", len(checks), "checks,", len(na), "not applicable")
    except ImportError:
        print("written (jsonschema not available to validate)")

main()
