'use strict';
// simnode: a deterministic stand-in for the Node.js / browser event loop, in which a GopherJS-compiled
// program runs with every source of nondeterminism (setTimeout/clearTimeout, Date.now, Math.random,
// process.exit, console, externally injected callbacks) owned by a seeded choice tape.
//
//   node simnode.js --worker        JSON-lines jobs on stdin, results on stdout
//   node simnode.js --run job.json  run one job file, print the result (used by replay and by hand)
//
// One (script, scenario, cfg, seed|tape) tuple is one exactly repeatable execution.
const vm = require('vm');
const fs = require('fs');
const crypto = require('crypto');

// ---------------------------------------------------------------- PRNG (xoshiro128**)
function seedWords(seed) {
  const h = crypto.createHash('sha256').update(String(seed)).digest();
  const s = [h.readUInt32LE(0), h.readUInt32LE(4), h.readUInt32LE(8), h.readUInt32LE(12)];
  if ((s[0] | s[1] | s[2] | s[3]) === 0) s[0] = 1;
  return s;
}
function rotl(x, k) { return ((x << k) | (x >>> (32 - k))) >>> 0; }
function mkRng(seed) {
  const s = seedWords(seed);
  return function next() {
    const r = (rotl(Math.imul(s[1], 5) >>> 0, 7) * 9) >>> 0;
    const t = (s[1] << 9) >>> 0;
    s[2] ^= s[0]; s[3] ^= s[1]; s[1] ^= s[2]; s[0] ^= s[3];
    s[2] ^= t; s[3] = rotl(s[3], 11);
    s[0] >>>= 0; s[1] >>>= 0; s[2] >>>= 0; s[3] >>>= 0;
    return r;
  };
}

// ---------------------------------------------------------------- defaults
const DEFAULT_CFG = {
  budget: 4000,            // event-loop turns per run
  dateBudget: 400000,      // Date.now() calls per run (guards loops that never return to the loop)
  // wall-clock advance per Date.now() call: deltas with weights; entry 0 must be the benign one
  tickDeltas: [0, 1, 2, 3, 6, 11, -4], tickWeights: [30, 8, 4, 2, 3, 1, 1],
  yieldWeights: [3, 1],    // [continue, suspend]
  delays: [0, 1, 2, 5, 9], // sleep lengths offered by simDelay()
  lateDeltas: [0, 1, 3, 12, 40], lateWeights: [12, 3, 2, 1, 1], // lateness added when the loop is idle
  fairness: 6,             // an eligible timer passed over this often must fire next
  reorder: true,           // choose among eligible due timers (false: strict (due, seq) order)
  cbWeights: [3, 1],       // [no callback this turn, deliver one]
  starveMs: 5000,          // wall time consumed inside one loop turn that counts as starving the loop
};

const scripts = new Map();
function loadScript(path) {
  let s = scripts.get(path);
  if (!s) { s = new vm.Script(fs.readFileSync(path, 'utf8'), { filename: path }); scripts.set(path, s); }
  return s;
}

class SimExit { constructor(code) { this.code = code; } }

// ---------------------------------------------------------------- one run
function runOnce(script, job, run) {
  const cfg = Object.assign({}, DEFAULT_CFG, job.cfg || {}, run.cfg || {});
  const replay = run.tape !== undefined && run.tape !== null;
  const rng = replay ? null : mkRng(run.seed);
  const tapeIn = replay ? run.tape : null;
  let tp = 0;
  const tape = [];
  const fired = {};  // per-kind counters of non-default choices and of simulator events
  function bump(k, d) { fired[k] = (fired[k] || 0) + (d === undefined ? 1 : d); }
  function choose(kind, n) {
    if (n <= 1) return 0;
    let v;
    if (replay) {
      if (tp < tapeIn.length) { const e = tapeIn[tp++]; v = (Array.isArray(e) ? e[2] : e) % n; if (v < 0) v += n; } else v = 0;
    } else v = rng() % n;
    tape.push([kind, n, v]);
    return v;
  }
  function chooseW(kind, weights) {
    let total = 0; for (const w of weights) total += w;
    let v = choose(kind, total);
    for (let i = 0; i < weights.length; i++) { if (v < weights[i]) return i; v -= weights[i]; }
    return 0;
  }

  let mono = 1000, wall = 1700000000000, turnWall = 0;
  let seq = 0, nextId = 1, turns = 0, dateCalls = 0;
  const timers = new Map(); // id -> {id, seq, due, delay, f, args, age}
  const hist = [], out = [], trace = [];
  let end = null;
  let inTurn = false;
  const pendingCbs = (job.callbacks || run.callbacks || []).map((c, i) => Object.assign({ idx: i }, c));
  const cbResults = [];
  const sharedObjs = {};

  function tick() {
    dateCalls++;
    if (dateCalls > cfg.dateBudget) { end = 'budget:date'; throw new SimExit(-1); }
    const i = chooseW('tick', cfg.tickWeights);
    const d = cfg.tickDeltas[i];
    if (d !== 0) {
      if (d < 0) bump('clock_back'); else if (d > 4) bump('tick_big'); else bump('tick_small');
      wall += d;
      if (d > 0) { mono += d; turnWall += d; }
      if (turnWall > cfg.starveMs && end === null) { end = 'starved'; throw new SimExit(-2); }
    }
    return wall;
  }

  const sb = {};
  sb.global = sb;
  sb.require = undefined;
  sb.TextDecoder = TextDecoder;
  sb.console = {
    log: (...a) => { out.push(a.map(String).join(' ')); },
    error: (...a) => { out.push('ERR ' + a.map(String).join(' ')); },
    warn: (...a) => { out.push('ERR ' + a.map(String).join(' ')); },
  };
  sb.process = { exit: c => { if (end === null) end = 'exit:' + c; throw new SimExit(c); }, env: {}, argv: ['node', 'sim'] };
  sb.setTimeout = (f, d, ...args) => {
    let delay = Math.trunc(Number(d));
    if (!(delay >= 1) || delay > 2147483647) delay = 1;
    const id = nextId++;
    timers.set(id, { id, seq: seq++, due: mono + delay, delay, f, args, age: 0 });
    bump('timers_set');
    return id;
  };
  sb.clearTimeout = id => { if (timers.delete(id)) bump('timers_cleared'); };
  sb.__now = tick;
  sb.__rnd = () => choose('rand', 60) / 60;
  sb.simScenario = run.scenario !== undefined ? run.scenario : job.scenario;
  sb.simYield = site => {
    const y = chooseW('yield', cfg.yieldWeights) === 1;
    if (y) bump('suspensions');
    return y;
  };
  sb.simDelay = () => cfg.delays[choose('delay', cfg.delays.length)];
  sb.simChoose = (n) => choose('wl', n | 0);
  sb.simLog = (...a) => {
    const rec = { n: seq++, t: turns };
    rec.a = a.map(x => (x === undefined ? null : (typeof x === 'object' && x !== null ? JSON.parse(JSON.stringify(x)) : x)));
    hist.push(rec);
  };
  sb.simStamp = () => seq++;
  const ctx = vm.createContext(sb);
  vm.runInContext('Date.now = __now; Math.random = __rnd;', ctx);

  function guard(fn) {
    // Runs one macrotask. Anything that escapes is what Node would print before dying.
    inTurn = true; turnWall = 0;
    try { fn(); } catch (e) {
      if (e instanceof SimExit) { /* end already set */ }
      else if (end === null) {
        let msg;
        try { msg = (e && e.message !== undefined) ? String(e.message) : String(e); } catch (_) { msg = '<unprintable>'; }
        end = 'uncaught:' + msg;
        if (job.wantStack && e && e.stack) out.push('STACK ' + String(e.stack));
      }
    } finally { inTurn = false; }
  }

  function eligibleTimers() {
    const due = [];
    for (const t of timers.values()) if (t.due <= mono) due.push(t);
    if (due.length <= 1) return due;
    due.sort((a, b) => (a.due - b.due) || (a.seq - b.seq));
    if (!cfg.reorder) return [due[0]];
    // HTML/Node guarantee: a timer may not overtake an earlier-created pending timer whose delay is <= its own.
    const el = due.filter(t => {
      for (const u of timers.values()) if (u.seq < t.seq && u.delay <= t.delay) return false;
      return true;
    });
    const starving = el.filter(t => t.age >= cfg.fairness);
    if (starving.length) return [starving[0]];
    return el;
  }

  function deliverCallback() {
    const i = choose('cbpick', job.cbOrdered ? 1 : pendingCbs.length);
    const cb = pendingCbs[i];
    const fn = ctx[cb.fn];
    if (typeof fn !== 'function') return false;
    pendingCbs.splice(i, 1);
    bump('callbacks');
    const rec = { n: seq++, t: turns, cb: cb.idx, fn: cb.fn };
    hist.push({ n: rec.n, t: turns, a: ['cb', cb.idx, 'inv'] });
    let args = cb.args || [];
    if (cb.shared) {
      // the same JavaScript object is handed to every call, mutated in between (created inside the sandbox)
      if (!sharedObjs[cb.shared]) sharedObjs[cb.shared] = vm.runInContext('({n: 0})', ctx);
      const o = sharedObjs[cb.shared];
      o.n++; o['k' + o.n] = o.n;
      args = [o, o, cb.idx];
    }
    guard(() => {
      try {
        const r = fn.apply(undefined, args);
        rec.ret = r === undefined ? null : JSON.parse(JSON.stringify(r));
      } catch (e) {
        if (e instanceof SimExit) throw e;
        rec.thrown = (e && e.message !== undefined) ? String(e.message) : String(e);
      }
    });
    rec.n2 = seq++;
    hist.push({ n: rec.n2, t: turns, a: ['cb', cb.idx, 'ret', rec.thrown !== undefined ? { thrown: rec.thrown } : { ret: rec.ret }] });
    cbResults.push(rec);
    return true;
  }

  // ---- initial synchronous run (package initialisation, main up to its first suspension)
  guard(() => script.runInContext(ctx));

  // ---- the event loop
  while (end === null) {
    if (timers.size === 0 && pendingCbs.length === 0) { end = 'drained'; break; }
    if (++turns > cfg.budget) { end = 'budget:turns'; break; }
    // external callback?
    if (pendingCbs.length) {
      const must = timers.size === 0;
      if (must || chooseW('callback', cfg.cbWeights) === 1) {
        if (deliverCallback()) continue;
        if (must) { end = 'cb-unregistered'; break; }
      }
    }
    if (timers.size === 0) continue;
    let el = eligibleTimers();
    if (el.length === 0) {
      let min = Infinity;
      for (const t of timers.values()) if (t.due < min) min = t.due;
      const li = chooseW('late', cfg.lateWeights);
      const late = cfg.lateDeltas[li];
      if (late > 0) bump('late_wakeups');
      const d = (min - mono) + late;
      mono += d; wall += d;
      el = eligibleTimers();
    }
    const k = choose('timer', el.length);
    if (k !== 0) bump('timer_reorders');
    const t = el[k];
    for (const u of el) if (u !== t) u.age++;
    timers.delete(t.id);
    if (mono > t.due) bump('late_fires');
    trace.push(t.seq);
    guard(() => t.f.apply(undefined, t.args));
  }

  const res = { end, out, turns, simMs: mono - 1000, fired, tapeLen: tape.length };
  if (job.wantHist !== false) res.hist = hist;
  if (job.wantTape !== false) res.tape = tape.map(e => e[2]);
  if (job.wantKinds) res.kinds = tape.map(e => e[0] + ':' + e[1]);
  if (cbResults.length) res.cbs = cbResults;
  res.sched = crypto.createHash('sha1').update(trace.join(',')).digest('hex').slice(0, 12);
  return res;
}

function runJob(job) {
  let script;
  try { script = loadScript(job.script); }
  catch (e) {
    // JavaScript that does not even parse is a fact about the compiled program, not about this simulator
    if (!(e instanceof SyntaxError)) throw e;
    const first = String(e.stack || e).split('\n').slice(0, 2).map(l => l.trim()).join(' ');
    return { id: job.id, results: job.runs.map(() => ({ end: 'loaderror:SyntaxError: ' + e.message + ' (' + first + ')', out: [], turns: 0, simMs: 0, fired: {}, tapeLen: 0, tape: [] })) };
  }
  const results = [];
  for (const run of job.runs) {
    try { results.push(runOnce(script, job, run)); }
    catch (e) { results.push({ end: 'simerror:' + (e && e.stack || e) }); }
  }
  if (job.evict) scripts.delete(job.script);
  return { id: job.id, results };
}

// ---------------------------------------------------------------- entry points
if (process.argv[2] === '--run') {
  const job = JSON.parse(fs.readFileSync(process.argv[3], 'utf8'));
  process.stdout.write(JSON.stringify(runJob(job)) + '\n');
} else if (process.argv[2] === '--worker') {
  let buf = '';
  process.stdin.setEncoding('utf8');
  process.stdin.on('data', d => {
    buf += d;
    let i;
    while ((i = buf.indexOf('\n')) >= 0) {
      const line = buf.slice(0, i); buf = buf.slice(i + 1);
      if (!line.trim()) continue;
      let outp;
      try { outp = runJob(JSON.parse(line)); } catch (e) { outp = { id: -1, error: String(e && e.stack || e) }; }
      process.stdout.write(JSON.stringify(outp) + '\n');
    }
  });
  process.stdin.on('end', () => process.exit(0));
} else {
  console.error('usage: simnode.js --worker | --run job.json');
  process.exit(2);
}
module.exports = { runJob };
